"""C15 (a complete report or a clean error, never a crash) and C16 (deterministic, canonically ordered output)."""
import os, json, re, datetime, subprocess, shutil, binascii, glob, stat
from fractions import Fraction as F
from . import run, build, ledger, gen, ledgerk as K, compare, classes
from .ledger import Line
from .props_ledger2 import load_known_text

def hexb(b): return binascii.hexlify(b).decode()

# ---------------- C15 ----------------
VALS = ["-1", "0", "0.00", "1", "2.5", "-0.01", "100"]
def gen_validate_case(rng):
    spec = []; tl = []
    for i in range(rng.randint(1, 6)):
        k = rng.choice(["BUY", "SELL", "DIVIDEND", "ACCUMULATION", "CAPRETURN", "SPLIT", "UNSPLIT"])
        a, v, x = rng.choice(VALS), rng.choice(VALS), rng.choice(VALS)
        spec.append({"date": "2024-01-%02d" % (i + 1), "tick": "A", "kind": k, "a": a, "v": v, "vcur": "GBP", "x": x, "xcur": "GBP"})
        h = "T %d A " % datetime.date(2024, 1, i + 1).toordinal()
        if k in ("BUY", "SELL"): tl.append(h + "%s %s %s %s" % (k, a, v, x))
        elif k == "DIVIDEND": tl.append(h + "DIV %s %s" % (v, x))
        elif k == "CAPRETURN": tl.append(h + "CAP %s %s %s" % (a, v, x))
        elif k == "ACCUMULATION": tl.append(h + "ACC %s %s %s" % (a, v, x))
        else: tl.append(h + "%s %s" % (k, a))
    return spec, [l.replace("0.00", "0").replace("2.5", "5/2").replace("-0.01", "-1/100") for l in tl]

def expected_invalid(t):
    a, v, x = F(t["a"]), F(t["v"]), F(t["x"]); k = t["kind"]
    if k in ("BUY", "SELL", "CAPRETURN"): return a <= 0 or v < 0 or x < 0
    if k == "DIVIDEND": return v < 0
    if k == "ACCUMULATION": return a <= 0 or v < 0
    return a <= 0

def mutate(rng, data):
    b = bytearray(data)
    for _ in range(rng.randint(1, 4)):
        r = rng.random()
        if not b: b = bytearray(b"2024-01-01 BUY A 1 @ 1\n")
        if r < 0.3: i = rng.randrange(len(b)); b[i] ^= 1 << rng.randrange(8)
        elif r < 0.5: i = rng.randrange(len(b)); del b[i:i + rng.randint(1, 8)]
        elif r < 0.7: i = rng.randrange(len(b)); b[i:i] = bytes(rng.randrange(256) for _ in range(rng.randint(1, 6)))
        elif r < 0.85: i = rng.randrange(len(b)); j = rng.randrange(len(b)); b[i:i] = b[j:j + rng.randint(1, 30)]
        else: b = b[:rng.randrange(len(b) + 1)]
    return bytes(b)

HOSTILE_LINES = [
 "2024-01-01 BUY A 0 @ 1", "2024-01-01 SELL A 1 @ 1", "2024-01-01 BUY A 1 @ 0", "2024-01-01 SPLIT A RATIO 0", "2024-01-02 UNSPLIT A RATIO 0",
 "0001-01-01 BUY A 1 @ 1", "9999-12-31 SELL A 1 @ 1", "9999-12-31 BUY A 1 @ 1", "0000-01-01 BUY A 1 @ 1", "2024-02-29 BUY A 0.0000000000000000000000000001 @ 79228162514264337593543950335",
 "2024-03-01 SELL A 0.0000000000000000000000000001 @ 0.0000000000000000000000000001", "2024-03-02 CAPRETURN A 1 TOTAL 1000000", "2024-03-02 ACCUMULATION A 0 TOTAL 0",
 "2024-03-03 DIVIDEND A TOTAL 1 XTS", "2024-03-03 BUY A 1 @ 1 ZWL", "1850-06-01 BUY A 5 @ 1", "1850-07-01 SELL A 5 @ 2", "2150-06-01 BUY A 5 @ 1", "2150-07-01 SELL A 1 @ 2",
 "2024-01-05 BUY A 1000000000000 @ 1000000000000", "2024-01-06 SELL A 1000000000000 @ 999999999999", "2024-01-07 SPLIT A RATIO 0.0000000001", "2024-01-08 UNSPLIT A RATIO 0.0000000001",
]

def cli(args, cwd, timeout=30, stdin=None):
    env = dict(build.ENV, HOME=cwd)
    try:
        p = subprocess.run([build.CLI] + args, cwd=cwd, stdout=subprocess.PIPE, stderr=subprocess.PIPE, env=env, timeout=timeout, input=stdin)
        return p.returncode, p.stdout, p.stderr
    except subprocess.TimeoutExpired:
        return "timeout", b"", b""

# ---------------- the command layer against Model/Cli.v (K.C15.cli) ----------------
def hx(b): return "x" + binascii.hexlify(b if isinstance(b, bytes) else b.encode()).decode()
GOOD_A = b"2024-01-01 BUY A 10 @ 1\n2024-06-01 SELL A 5 @ 2\n"
GOOD_B = b"2024-07-01 BUY B 1 @ 1 USD\n"
GOOD_NOEOL = b"2023-02-01 BUY C 3 @ 2"
BAD_PARSE = b"2024-01-01 BUY A ten @ 1\n"
BAD_CALC = b"2024-01-01 SELL Z 5 @ 2\n"
def snapshot(wd):
    out = {}
    for dp, dn, fn in os.walk(wd):
        for f in fn:
            q = os.path.join(dp, f)
            try: out[os.path.relpath(q, wd)] = open(q, "rb").read()
            except OSError: out[os.path.relpath(q, wd)] = None
    return out

def cli_files():
    """the files every command-layer scenario starts from (dotted names, a sub-directory, a hidden file, a file without final newline, an empty
    one, unparsable and uncomputable ledgers, two statements holding an identical line, a broker export with its awards)"""
    files = {"a.cgt": GOOD_A, "b.cgt": GOOD_B, "c.noeol": GOOD_NOEOL, "bad.cgt": BAD_PARSE, "calcbad.cgt": BAD_CALC,
             "my.ledger.cgt": GOOD_A, "noext": GOOD_B, ".hidden": GOOD_B, "sub.d/x.cgt": GOOD_A, "sub.d/noext": GOOD_B, "empty.cgt": b"", "dots.": GOOD_B,
             "dup1.cgt": b"2024-02-01 BUY D 5 @ 2 FEES 1\n", "dup2.cgt": b"2024-02-01 BUY D 5 @ 2 FEES 1\n2024-09-01 SELL D 7 @ 3\n"}
    for nm, key in (("synthetic-transactions.json", "s.json"), ("synthetic-awards.json", "aw.json")):
        q = os.path.join(build.REPO, "tests/schwab", nm)
        files[key] = open(q, "rb").read() if os.path.exists(q) else b"{}"
    files["junk.json"] = b"{not json"
    return files

def cli_layer(ctx, root):
    """Scenarios of files, command lines and faults: the effects Model/Cli.v predicts (standard output, files written, exit)
    from the outcomes of the computations (taken from the library through the harness) against what the built binary does."""
    rng = ctx.rng
    files = cli_files()
    scen = []
    for i in range(ctx.n(70, 1200)):
        kind = rng.choice(["report"] * 6 + ["parse"] * 2 + ["convert"])
        sc = {"id": "cl%d" % i, "kind": kind, "pre": [], "nowrite": []}
        out_choices = [None, None, None, "out.txt", "out.txt", "old.txt", "old.txt", "nodir/out.txt", "sub.d/o.bin", "sub.d"]
        if kind == "report":
            k = rng.choice([1, 1, 1, 2, 3])
            pool = ["a.cgt", "b.cgt", "c.noeol", "my.ledger.cgt", "noext", ".hidden", "sub.d/x.cgt", "sub.d/noext", "empty.cgt", "dots.", "dup1.cgt", "dup2.cgt"] * 5 + ["bad.cgt", "calcbad.cgt", "nope.cgt", "sub.d"]
            sc["files"] = [rng.choice(pool) for _ in range(k)]
            sc["format"] = rng.choice(["plain", "json", "pdf", "pdf"])
            sc["year"] = rng.choice([None] * 6 + [2024, 2024, 2023, 2030, 1800])
            sc["output"] = rng.choice(out_choices)
            sc["fx"] = rng.choice([None] * 6 + ["fx", "fx", "nofolder"])
            if sc["format"] == "pdf" and sc["output"] is None and rng.random() < 0.5:
                sc["pre"].append("default_pdf")
        elif kind == "parse":
            sc["schema"] = rng.random() < 0.2
            sc["files"] = [] if sc["schema"] and rng.random() < 0.5 else [rng.choice(["a.cgt", "b.cgt", "c.noeol", "bad.cgt", "calcbad.cgt", "nope.cgt", "empty.cgt", "sub.d/x.cgt"]) for _ in range(rng.choice([1, 1, 2, 3]))]
        else:
            sc["export"] = rng.choice(["s.json", "s.json", "junk.json", "nope.json", "a.cgt"])
            sc["awards"] = rng.choice([None, "aw.json", "aw.json", "none.json", "junk.json"])
            sc["output"] = rng.choice(out_choices)
        scen.append(sc)
    # every stage at which a command can fail, against an --output path that exists and one that does not, in every format
    fixed = []
    for out in ("old.txt", "out.txt"):
        for ex, aw in (("s.json", "junk.json"), ("s.json", "none.json"), ("junk.json", None), ("nope.json", None), ("a.cgt", "aw.json")):
            fixed.append({"kind": "convert", "export": ex, "awards": aw, "output": out})
        for fl, yr, fx in ((["nope.cgt"], None, None), (["a.cgt", "bad.cgt"], None, None), (["calcbad.cgt"], None, None), (["a.cgt"], 1800, None), (["a.cgt"], None, "nofolder"), (["sub.d"], None, None)):
            for fm in ("plain", "json", "pdf"):
                fixed.append({"kind": "report", "files": fl, "format": fm, "year": yr, "output": out, "fx": fx})
    for fm in ("plain", "json"):
        fixed.append({"kind": "report", "files": ["dup1.cgt", "dup2.cgt"], "format": fm, "year": None, "output": None, "fx": None})
        fixed.append({"kind": "report", "files": ["dup2.cgt", "a.cgt", "dup1.cgt"], "format": fm, "year": 2024, "output": "out.txt", "fx": None})
    fixed.append({"kind": "parse", "files": ["dup1.cgt", "dup2.cgt"], "schema": False})
    for i, sc in enumerate(fixed):
        sc.update({"id": "cx%d" % i, "pre": [], "nowrite": []}); scen.append(sc)
    # oracles: what the computations give on these inputs (library, through the harness)
    def joined(fl):
        cs = []
        for f in fl:
            if f not in files: return None
            cs.append(files[f])
        return b"\n".join(cs)
    hc = []; seen = set()
    for sc in scen:
        if sc["kind"] in ("report", "parse"):
            j = joined(sc["files"])
            if j is None: continue
            key = (j, sc.get("year") if sc["kind"] == "report" else "parse")
            if key in seen: continue
            seen.add(key)
            try: t = j.decode("utf-8")
            except UnicodeDecodeError: continue
            if sc["kind"] == "report": hc.append({"id": "fo:%s:%s" % (hexb(j), sc.get("year")), "op": "format", "dsl": t, **({"year": sc["year"]} if sc.get("year") is not None else {})})
            hc.append({"id": "pa:%s" % hexb(j), "op": "parse", "text_hex": hexb(j)})
    conv = {}
    for ex in ("s.json", "junk.json", "a.cgt"):
        for aw in (None, "aw.json", "junk.json"):
            c = {"id": "cv:%s:%s" % (ex, aw), "op": "schwab", "transactions_json": files[ex].decode("utf-8", "replace")}
            if aw: c["awards_json"] = files[aw].decode("utf-8", "replace")
            hc.append(c)
    hr = run.run_harness(hc)
    def mask(b): return b"\n".join(l for l in b.split(b"\n") if not l.startswith(b"# Converted: "))
    mc = []; want = {}
    for sc in scen:
        lines = []
        for f, c in files.items(): lines.append("FR %s %s" % (hx(f), hx(c)))
        exists = set(files) | {"sub.d", "old.txt", "fx"}
        nowrite = {"nodir/out.txt", "sub.d"}
        if "default_pdf" in sc["pre"]:
            fl = sc["files"]
            if len(fl) == 1:
                d, _, comp = fl[0].rpartition("/")
                stem = comp[:comp.rfind(".")] if comp.rfind(".") > 0 else comp
                dp = (d + "/" if d else "") + stem + ".pdf"
            else: dp = "report.pdf"
            sc["default_pdf_path"] = dp; exists.add(dp)
        for e in sorted(exists): lines.append("FE " + hx(e))
        for e in sorted(nowrite): lines.append("FNW " + hx(e))
        o = lambda v: hx(v) if v is not None else "-"
        if sc["kind"] == "report":
            j = joined(sc["files"]); fo = hr.get("fo:%s:%s" % (hexb(j), sc.get("year"))) if j is not None else None; pa = hr.get("pa:%s" % hexb(j)) if j is not None else None
            if j is not None: lines.append("PT %s %d" % (hx(j), 1 if pa and pa.get("ok") else 0))
            calc_ok = bool(fo and fo.get("ok"))
            lines.append("OR fx=%d cfg=1 calc=%d plain=%s json=%s pdf=%s" % (0 if sc["fx"] == "nofolder" else 1, 1 if calc_ok else 0,
                         hx(fo["plain"]) if calc_ok else "-", hx(fo["json"]) if calc_ok else "-", hx(b"%PDF") if calc_ok else "-"))
            lines.append("RUN cli_report %s %s %s %s %s" % (",".join(hx(f) for f in sc["files"]), sc["year"] if sc["year"] is not None else "-", sc["format"], o(sc["output"]), o(sc["fx"])))
        elif sc["kind"] == "parse":
            j = joined(sc["files"]); pa = hr.get("pa:%s" % hexb(j)) if j is not None else None
            if j is not None: lines.append("PT %s %d" % (hx(j), 1 if pa and pa.get("ok") else 0))
            lines.append("OR tojson=%s schema=%s" % (hx(pa["json_pretty"]) if pa and pa.get("ok") else "-", hx(b"SCHEMA")))
            lines.append("RUN cli_parse %s %d" % (",".join(hx(f) for f in sc["files"]) or "-", 1 if sc["schema"] else 0))
        else:
            cv = hr.get("cv:%s:%s" % (sc["export"], sc["awards"]))
            lines.append("OR conv=%s" % (hx(cv["content"]) if cv and cv.get("ok") else "-"))
            lines.append("RUN cli_convert %s %s %s" % (hx(sc["export"]), o(sc["awards"]), o(sc["output"])))
        mc.append((sc["id"], lines))
    mr = run.run_model(mc)
    for sc in scen:
        wd = os.path.join(root, sc["id"]); os.makedirs(os.path.join(wd, "sub.d")); os.makedirs(os.path.join(wd, "fx"))
        for f, c in files.items(): open(os.path.join(wd, f), "wb").write(c)
        open(os.path.join(wd, "old.txt"), "wb").write(b"OLD")
        if sc.get("default_pdf_path"): open(os.path.join(wd, sc["default_pdf_path"]), "wb").write(b"SENTINEL")
        before = snapshot(wd)
        if sc["kind"] == "report":
            args = ["report"] + sc["files"] + ["--format", sc["format"]]
            if sc["year"] is not None: args += ["--year", str(sc["year"])]
            if sc["output"] is not None: args += ["--output", sc["output"]]
            if sc["fx"] is not None: args += ["--fx-folder", sc["fx"]]
        elif sc["kind"] == "parse":
            args = ["parse"] + sc["files"] + (["--schema"] if sc["schema"] else [])
        else:
            args = ["convert", "schwab", sc["export"]] + (["--awards", sc["awards"]] if sc["awards"] else []) + (["--output", sc["output"]] if sc["output"] else [])
        rc, out, err = cli(args, wd)
        after = snapshot(wd)
        changed = {k: v for k, v in after.items() if before.get(k) != v}
        removed = [k for k in before if k not in after]
        mm = mr[sc["id"]]
        ctx.evaluations += 1; ctx.traces += 1
        ctx.count("cli_layer_" + sc["kind"], "ok" if mm["ok"] else "fail")
        ctx.nontrivial.add(json.dumps({k: v for k, v in sc.items() if k != "id"}, sort_keys=True, default=str))
        m_out = b"".join(binascii.unhexlify(e["out"]) for e in mm["effects"] if "out" in e)
        m_wr = {binascii.unhexlify(e["write"]).decode(): binascii.unhexlify(e["bytes"]) for e in mm["effects"] if "write" in e}
        what = None; is_prop = False
        if mm["unknown_content"]: what = "the model joined the files' contents differently from the harness oracle"
        elif rc == "timeout": what = "the command hangs"; is_prop = True
        elif sc["kind"] == "parse" and sc.get("schema"):
            if (rc == 0) != mm["ok"] or (rc == 0 and not out.strip().startswith(b"{")) or changed: what = "schema command: exit %s, %d bytes, changed %s" % (rc, len(out), sorted(changed))
        elif (rc == 0) != mm["ok"]:
            what = "exit status %s, model says %s (stderr %s)" % (rc, "success" if mm["ok"] else "failure", err[-160:].decode("utf-8", "replace")); is_prop = (rc != 0 and rc not in (1, 2))
        elif rc != 0 and (out.strip() or changed or removed):
            what = "the command fails (exit %s) but has effects: stdout %r, files changed %s" % (rc, out[:80], sorted(changed) + removed); is_prop = True
        elif rc == 0:
            if removed or set(changed) != set(m_wr): what = "files written %s, model says %s" % (sorted(changed), sorted(m_wr)); is_prop = any(k == sc.get("default_pdf_path") for k in changed)
            else:
                for k, v in changed.items():
                    if sc["kind"] == "report" and sc["format"] == "pdf":
                        if not (v or b"").startswith(b"%PDF"): what = "%s is not a PDF" % k
                    elif mask(v or b"") != mask(m_wr[k]): what = "content of %s differs from the formatter's result (%d vs %d bytes)" % (k, len(v or b""), len(m_wr[k])); is_prop = True
                if what is None and mask(out) != mask(m_out): what = "standard output differs from the model's: %r vs %r" % (out[:100], m_out[:100]); is_prop = len(out) < len(m_out)
        if what:
            ctx.disagreements_checked += 1
            if is_prop:
                ctx.violation("`cgt-tool %s`: %s" % (" ".join(args), what), {"args": args, "scenario": {k: v for k, v in sc.items()}, "model": mm, "exit": rc, "stdout": out[:600].decode("utf-8", "replace"), "stderr": err[-300:].decode("utf-8", "replace"), "files_changed": sorted(changed)}, found_input=True)
            else:
                ctx.violation("correspondence K.C15.cli broken on `cgt-tool %s`: %s" % (" ".join(args), what), {"args": args, "scenario": {k: v for k, v in sc.items()}, "model": mm, "exit": rc, "stdout": out[:600].decode("utf-8", "replace"), "stderr": err[-300:].decode("utf-8", "replace"), "files_changed": sorted(changed), "correspondence": "K.C15.cli"}, found_input=False)
        shutil.rmtree(wd, ignore_errors=True)

def k_c15(ctx):
    rng = ctx.rng
    # (a) validator: model vs code vs the property's wording
    vc = {}
    for i in range(ctx.n(1500, 30000)): vc["v%d" % i] = gen_validate_case(rng)
    m = run.run_model([(cid, tl + ["RUN validate"]) for cid, (spec, tl) in vc.items()])
    r = run.run_harness([{"id": cid, "op": "validate", "txns": spec} for cid, (spec, tl) in vc.items()])
    for cid, (spec, tl) in vc.items():
        ctx.evaluations += 1; ctx.traces += 1
        mm, rr = m[cid], r[cid]
        exp = [i + 1 for i, t in enumerate(spec) if expected_invalid(t)]
        ctx.count("validator_verdict", "errors" if exp else "valid")
        ctx.nontrivial.add(json.dumps(spec, sort_keys=True)); ctx.sample({"id": cid, "txns": spec[:2]}, limit=2)
        if not rr.get("ok"): ctx.notes.append("validate harness: %s" % rr); continue
        if rr["error_lines"] != exp or rr["is_valid"] != (not exp):
            ctx.violation("validator reports errors on lines %s, the rule gives %s" % (rr["error_lines"], exp), {"txns": spec, "code": rr}, found_input=True)
        elif mm["error_lines"] != rr["error_lines"]:
            ctx.violation("correspondence K.C15.validate broken: model %s, code %s" % (mm["error_lines"], rr["error_lines"]), {"txns": spec, "model": mm, "code": rr, "correspondence": "K.C15.validate"}, found_input=False)
    # (b) arbitrary bytes and hostile ledgers through the library
    seeds = [open(p, "rb").read() for p in sorted(glob.glob(build.REPO + "/tests/inputs/*.cgt"))[:20]] + [open(p, "rb").read() for p in sorted(glob.glob(build.REPO + "/tests/schwab/*.json"))[:4]]
    seeds += [open(p, "rb").read() for p in sorted(glob.glob(build.REPO + "/crates/cgt-money/resources/rates/2024-0*.xml"))[:2]]
    bc = {}
    for pth in sorted(glob.glob(os.path.join(build.ROOT, "corpus", "*"))):      # reproducers of known findings run first
        bc["corpus:" + os.path.basename(pth)] = open(pth, "rb").read()
    for i in range(ctx.n(1500, 100000)):
        r0 = rng.random()
        if r0 < 0.6: data = mutate(rng, rng.choice(seeds))
        elif r0 < 0.75: data = bytes(rng.randrange(256) for _ in range(rng.randint(0, 200)))
        else: data = ("\n".join(rng.sample(HOSTILE_LINES, rng.randint(1, 6))) + "\n").encode()
        bc["b%d" % i] = data
    br = run.run_harness([{"id": cid, "op": "bytes", "hex": hexb(d)} for cid, d in bc.items()])
    for cid, d in bc.items():
        ctx.evaluations += 1; x = br[cid]
        ctx.count("bytes_outcome", "returned" if x.get("ok") else x.get("stage"))
        if x.get("ok"):
            for k, v in x["outcomes"].items(): ctx.count("entry_" + k, "ok" if v else "err")
            continue
        if x.get("stage") == "panic":
            if "overflow" in x.get("error", "").lower() or "Division by zero" in x.get("error", ""):
                kt = load_known_text("C15", "kf_decimal_overflow")
                if kt and "overflow" in x.get("error", "").lower() and classes.extreme_magnitudes(d): ctx.known(kt); continue
            ctx.violation("library entry point panics: %s" % x.get("error", "")[:160], {"input_hex": hexb(d), "input_text": d.decode("utf-8", "replace")[:600], "code": x}, found_input=True)
    # (b2) hostile broker exports: well-formed JSON whose fields sit at the ends of what the converter's types hold
    HD = ["01/03/-262143", "01/01/-262143", "12/31/262142", "12/25/262142", "01/01/0001", "12/31/9999", "02/29/2023", "02/29/2024", "13/01/2024", "00/10/2024",
          "01/05/2024 as of 12/31/2023", "01/03/-262143 as of 01/01/-262143", "1/2/24", "", "2024-01-05", "01/01/0000", "06/15/2024"]
    HQ = ["10", "0", "-5", "79228162514264337593543950335", "0.0000000000000000000000000001", "1e5", "", "--", "$1,234.56", "-$0.01", "1,000", "NaN", "7922816251426433759354395033.5"]
    HA = ["Stock Plan Activity", "Buy", "Sell", "Cancel Sell", "Stock Split", "Qualified Dividend", "NRA Tax Adj", "NRA Withholding", "Cash Dividend", "Wire Sent", "Unknown Thing", ""]
    HDV = ["01/03/-262143", "01/01/-262143", "01/08/-262143", "12/31/262142", "12/25/262142", "01/01/0001", "01/05/0001", "12/31/9999", "02/29/2024", "06/15/2024", "06/15/2024", "01/05/2024 as of 12/31/2023"]
    HQV = ["10", "1", "$1,234.56", "0.5", "1,000", "$12.34", "79228162514264337593543950335", "0.0000000000000000000000000001"]
    ASOF = ["03/20/2024 as of", "03/20/2024 as of ", "as of", "as of ", "03/20/2024 as of\u00a003/18/2024", "03/20/2024 as of 03/18", "03/20/2024 as ofX", "as of 03/18/2024",
            "03/20/2024  as of  03/18/2024", "03/20/2024 AS OF 03/18/2024", "03/20/2024 as of 03/18/2024 as of 03/17/2024", "\u00e9 as of \u00e9"]
    def garble(t):
        """a valid field value cut short, or with a multi-byte character put somewhere in it"""
        if not t: return t
        r = rng.random(); k = rng.randint(0, len(t))
        if r < 0.5: return t[:k]
        if r < 0.8: return t[:k] + rng.choice(["\u00a0", "\u00e9", "\u65e5", "\u20ac"]) + t[k:]
        return t + rng.choice(["\u00a0", " ", "\t", "\u00e9"])
    def hd():
        r = rng.random()
        if r < 0.72: return rng.choice(HDV)
        if r < 0.82: return rng.choice(ASOF)
        if r < 0.90: return garble(rng.choice(HDV))
        return rng.choice(HD)
    def hq():
        r = rng.random()
        if r < 0.78: return rng.choice(HQV)
        if r < 0.86: return garble(rng.choice(HQV))
        return rng.choice(HQ)
    sc = {}
    for i in range(ctx.n(600, 20000)):
        rows = []
        for j in range(rng.randint(1, 4)):
            rows.append({"Date": hd(), "Action": "Stock Plan Activity" if rng.random() < 0.35 else rng.choice(HA), "Symbol": rng.choice(["XYZ", "xyz", "", "A B", "BRK.B"]), "Description": "d",
                         "Quantity": hq(), "Price": hq(), "Fees & Comm": rng.choice(["", "$0.50", hq()]), "Amount": hq()})
        aw = None
        if rng.random() < 0.7:
            aw = {"Transactions": [{"Date": hd(), "Action": rng.choice(["Deposit", "Lapse", "Sale"]), "Symbol": rng.choice(["XYZ", "xyz", "ABC"]),
                                    "TransactionDetails": [{"Details": {rng.choice(["FairMarketValuePrice", "VestFairMarketValue", "Other"]): hq(), "VestDate": hd()}}] if rng.random() < 0.8 else []}
                                   for _ in range(rng.randint(0, 3))]}
        c = {"id": "s%d" % i, "op": "schwab", "transactions_json": json.dumps({"BrokerageTransactions": rows})}
        if aw is not None: c["awards_json"] = json.dumps(aw)
        sc["s%d" % i] = c
    sr = run.run_harness(list(sc.values()))
    for cid, c in sc.items():
        ctx.evaluations += 1; x = sr[cid]
        ctx.count("hostile_export_outcome", "ok" if x.get("ok") else (x.get("kind") or x.get("stage")))
        if x.get("stage") == "panic":
            if "overflow" in x.get("error", "").lower() and "Decimal" in x.get("error", "") or "Multiplication overflowed" in x.get("error", "") or "Addition overflowed" in x.get("error", ""):
                kt = load_known_text("C15", "kf_decimal_overflow")
                if kt and classes.extreme_magnitudes(c["transactions_json"] + (c.get("awards_json") or "")): ctx.known(kt); continue
            ctx.violation("the Schwab converter panics: %s" % x.get("error", "")[:160], {"transactions_json": c["transactions_json"], "awards_json": c.get("awards_json"), "code": x}, found_input=True)
    # (c) the CLI as a process
    root = os.path.join(build.CACHE, "run", "c15-%d" % os.getpid()); shutil.rmtree(root, ignore_errors=True); os.makedirs(root)
    try:
        def check_failure_clean(what, rc, out, err, wd, sentinel=None, data=b""):
            if rc == "timeout": ctx.violation("%s: hangs (no exit within the time limit)" % what, {"workdir_listing": os.listdir(wd)}, found_input=True); return False
            if rc not in (0, 1, 2):
                if rc == 101 and b"overflow" in err.lower() and classes.extreme_magnitudes(data):
                    kt = load_known_text("C15", "kf_decimal_overflow")
                    if kt: ctx.known(kt); return True
                ctx.violation("%s: abnormal exit status %s: %s" % (what, rc, err[-200:].decode("utf-8", "replace")), {"stderr": err[-400:].decode("utf-8", "replace")}, found_input=True); return False
            if rc != 0:
                if out.strip(): ctx.violation("%s: fails (exit %s) but writes to standard output: %r" % (what, rc, out[:120]), {"stdout": out[:400].decode("utf-8", "replace")}, found_input=True); return False
                if not err.strip(): ctx.violation("%s: fails with no message" % what, {}, found_input=True); return False
                if sentinel and open(sentinel, "rb").read() != b"SENTINEL": ctx.violation("%s: fails but the --output file was modified" % what, {}, found_input=True); return False
            return True
        n = 0
        inputs = [("hostile", ("\n".join(rng.sample(HOSTILE_LINES, rng.randint(1, 5))) + "\n").encode()) for _ in range(ctx.n(25, 800))]
        inputs += [("mutated", mutate(rng, rng.choice(seeds[:20]))) for _ in range(ctx.n(25, 1500))]
        for kind, data in inputs:
            wd = os.path.join(root, "p%d" % n); os.makedirs(wd); n += 1
            open(os.path.join(wd, "in.cgt"), "wb").write(data)
            sent = os.path.join(wd, "out.txt"); open(sent, "wb").write(b"SENTINEL")
            fmt = rng.choice(["plain", "json", "pdf"])
            cmdk = rng.choice(["report", "report", "parse", "report-output"])
            if cmdk == "parse": args = ["parse", "in.cgt"]
            elif cmdk == "report": args = ["report", "in.cgt", "--format", fmt] + (["--output", "gen." + fmt] if fmt == "pdf" else [])
            else: args = ["report", "in.cgt", "--format", fmt, "--output", "out.txt"]
            rc, out, err = cli(args, wd)
            ctx.evaluations += 1; ctx.count("cli_" + kind, rc); ctx.nontrivial.add((kind, data[:200]))
            check_failure_clean("cgt-tool %s on %s input" % (" ".join(args), kind), rc, out, err, wd, sent if cmdk == "report-output" else None, data=data)
        # faults
        good = b"2024-01-01 BUY A 10 @ 1\n2024-06-01 SELL A 5 @ 2\n"
        def fresh():
            nonlocal n
            wd = os.path.join(root, "f%d" % n); os.makedirs(wd); n += 1
            open(os.path.join(wd, "a.cgt"), "wb").write(good); open(os.path.join(wd, "b.cgt"), "wb").write(b"2024-07-01 BUY B 1 @ 1\n")
            return wd
        faults = []
        wd = fresh(); faults.append(("missing input file", ["report", "nope.cgt"], wd, None))
        wd = fresh(); os.makedirs(os.path.join(wd, "dir.cgt")); faults.append(("directory as input", ["report", "dir.cgt"], wd, None))
        wd = fresh(); faults.append(("missing fx folder", ["report", "a.cgt", "--fx-folder", "nofolder"], wd, None))
        wd = fresh(); os.makedirs(os.path.join(wd, "fx")); open(os.path.join(wd, "fx", "2024-01.xml"), "w").write("<exchangeRateMonthList Period=\"01/Jan/2024 to"); faults.append(("malformed rates xml", ["report", "a.cgt", "--fx-folder", "fx"], wd, None))
        wd = fresh(); faults.append(("unwritable output", ["report", "a.cgt", "--output", "nodir/out.txt"], wd, None))
        wd = fresh(); faults.append(("unwritable pdf output", ["report", "a.cgt", "--format", "pdf", "--output", "nodir/out.pdf"], wd, None))
        wd = fresh(); faults.append(("bad year", ["report", "a.cgt", "--year", "999999"], wd, None))
        wd = fresh(); faults.append(("convert garbage", ["convert", "schwab", "a.cgt"], wd, None))
        wd = fresh(); faults.append(("convert missing awards", ["convert", "schwab", "a.cgt", "--awards", "none.json"], wd, None))
        for what, args, wd, _ in faults:
            rc, out, err = cli(args, wd); ctx.evaluations += 1; ctx.count("fault", what)
            if rc == 0: ctx.violation("fault '%s' (%s) exits 0" % (what, " ".join(args)), {"stdout": out[:300].decode("utf-8", "replace")}, found_input=True)
            else: check_failure_clean("fault '%s'" % what, rc, out, err, wd)
        # the default PDF path never replaces an existing file: single input, several inputs
        for files, default in ((["a.cgt"], "a.pdf"), (["a.cgt", "b.cgt"], "report.pdf"), (["b.cgt", "a.cgt"], "report.pdf")):
            wd = fresh(); open(os.path.join(wd, default), "wb").write(b"SENTINEL")
            rc, out, err = cli(["report"] + files + ["--format", "pdf"], wd); ctx.evaluations += 1; ctx.count("fault", "existing default pdf (%d inputs)" % len(files))
            if open(os.path.join(wd, default), "rb").read() != b"SENTINEL":
                ctx.violation("report --format pdf with %d input file(s) replaced the existing %s (exit %s)" % (len(files), default, rc), {"files": files, "stdout": out.decode("utf-8", "replace")}, found_input=True)
            elif rc == 0: ctx.violation("report --format pdf exits 0 although %s exists and was not written" % default, {"files": files}, found_input=True)
            elif out.strip(): ctx.violation("refusing to overwrite %s but standard output is not empty" % default, {"stdout": out.decode("utf-8", "replace")}, found_input=True)
            # ... and it is written when absent
            wd = fresh(); rc, out, err = cli(["report"] + files + ["--format", "pdf"], wd); ctx.evaluations += 1
            if rc != 0 or not os.path.exists(os.path.join(wd, default)): ctx.violation("report --format pdf with %d input(s) does not write %s (exit %s): %s" % (len(files), default, rc, err[-160:].decode("utf-8", "replace")), {}, found_input=True)
        cli_layer(ctx, root)
    finally:
        shutil.rmtree(root, ignore_errors=True)

# ---------------- C16 ----------------
def big_ledger(rng, nsec, nyears):
    ticks = ["T%02d" % i for i in rng.sample(range(60), nsec)] + (["abc", "ABD"] if rng.random() < 0.5 else [])
    if rng.random() < 0.6:      # tickers that are prefixes of one another, of different lengths, digits against letters
        ticks = ticks[:max(2, nsec // 2)] + rng.sample(["A", "AA", "AAL", "AALB", "BT", "BTA", "GOOG", "GOOGL", "T1", "T10", "T100", "Z", "Z9", "9Z"], rng.randint(3, 8))
    ls = []
    y0 = 2016
    for t in ticks: ls.append(Line(datetime.date(y0, 1, rng.randint(1, 28)), t, "BUY", "1000", rng.choice(gen.PRICE), "GBP", None))
    for y in range(y0, y0 + nyears):
        d = datetime.date(y, rng.choice([4, 5, 9]), rng.choice([5, 6, 15]))
        for t in rng.sample(ticks, min(len(ticks), rng.randint(2, 6))):     # many disposals on one date
            ls.append(Line(d, t, "SELL", rng.choice(["1", "5", "10"]), rng.choice(gen.PRICE), "GBP", rng.choice(gen.FEES)))
        if rng.random() < 0.5: ls.append(Line(d, rng.choice(ticks), "DIVIDEND", None, "5", "GBP", None))
    if rng.random() < 0.4:      # one crowded tax year: every security sold on each of several dates (dozens of disposals in one year)
        y = y0 + rng.randint(0, nyears - 1)
        for dd in rng.sample([datetime.date(y, 6, 1), datetime.date(y, 7, 15), datetime.date(y, 9, 30), datetime.date(y, 12, 1), datetime.date(y + 1, 2, 2), datetime.date(y + 1, 4, 5)], rng.randint(3, 6)):
            for t in ticks: ls.append(Line(dd, t, "SELL", rng.choice(["1", "2"]), rng.choice(gen.PRICE), "GBP", None))
    rng.shuffle(ls)
    return ls

def schwab_export(rng):
    rows = []
    d = "07/15/2023"
    for s in rng.sample(["AAA", "BBB", "CCC", "DDD", "EEE", "FFF", "GGG"], 6):
        rows.append({"Date": d, "Action": "NRA Withholding", "Symbol": s, "Description": "x", "Quantity": "", "Price": "", "Fees & Comm": "", "Amount": "-$1.50"})
        rows.append({"Date": d, "Action": "Buy", "Symbol": s, "Description": "x", "Quantity": "1", "Price": "$2", "Fees & Comm": "", "Amount": ""})
        rows.append({"Date": d, "Action": rng.choice(["Weird Action", "Stock Split", "Journal"]), "Symbol": s, "Description": "x", "Quantity": "", "Price": "", "Fees & Comm": "", "Amount": ""})
    # dividends whose withholdings are booked on other days, several per dividend and per symbol: whatever pairs them up must not do so in hash order
    for s in rng.sample(["HHH", "III", "JJJ", "KKK", "LLL"], 4):
        rows.append({"Date": "03/01/2024", "Action": rng.choice(["Cash Dividend", "Qualified Dividend"]), "Symbol": s, "Description": "x", "Quantity": "", "Price": "", "Fees & Comm": "", "Amount": "$%d.00" % rng.randint(10, 99)})
        for dd, act in (("03/04/2024", "NRA Withholding"), ("03/06/2024", "NRA Tax Adj"), ("02/28/2024", "NRA Withholding")):
            rows.append({"Date": dd, "Action": act, "Symbol": s, "Description": "x", "Quantity": "", "Price": "", "Fees & Comm": "", "Amount": "-$%d.%02d" % (rng.randint(1, 9), rng.randint(0, 99))})
    try:
        from . import props_schwab as PS
        ex = PS.gen_export(rng, n=rng.randint(4, 10), hostile=0)
        rows += [x for x in (ex[0] if isinstance(ex, tuple) else ex) if isinstance(x, dict)]
    except Exception: pass
    rng.shuffle(rows)
    return json.dumps({"BrokerageTransactions": rows})

def k_c16(ctx):
    rng = ctx.rng
    root = os.path.join(build.CACHE, "run", "c16-%d" % os.getpid()); shutil.rmtree(root, ignore_errors=True); os.makedirs(root)
    try:
        nproc = ctx.n(6, 20)
        for li in range(ctx.n(10, 100)):
            ls = big_ledger(rng, rng.randint(4, 12), rng.randint(2, 8)) if li % 4 else gen.gen_ledger(rng, nsec=3, nlines=14)
            if li == 1:
                # disposals in several tax years the exemption table does not cover: the command fails, and what it says must not depend on hash order either
                ls = [Line(datetime.date(2008, 5, 1), "OLD", "BUY", "50", "1", "GBP", None)] + [Line(datetime.date(y, 9, 1), "OLD", "SELL", "1", "2", "GBP", None) for y in (2008, 2009, 2010, 2011, 2012, 2027, 2028)]
            wd = os.path.join(root, "l%d" % li); os.makedirs(wd)
            open(os.path.join(wd, "in.cgt"), "w").write(ledger.render(ls))
            open(os.path.join(wd, "tx.json"), "w").write(schwab_export(rng))
            ctx.nontrivial.add(K.signature(ls)); ctx.sample({"ledger": li, "dsl": ledger.render(ls)[:400]}, limit=2)
            ctx.count("securities", len(K.ticks_of(ls))); ctx.count("ledger_lines", len(ls))
            cmds = {"plain": ["report", "in.cgt"], "json": ["report", "in.cgt", "--format", "json"], "parse": ["parse", "in.cgt"],
                    "convert": ["convert", "schwab", "tx.json"]}
            if li % 3 == 0: cmds["pdf"] = ["report", "in.cgt", "--format", "pdf", "--output", "out.pdf"]
            # the same ledger as several input files (accounts, export chunks): the command line's order of files is part of the input
            nf = rng.choice([2, 3, 5, 8]); chunks = [[] for _ in range(nf)]
            for l in ls: chunks[rng.randrange(nf)].append(l)
            names = []
            for ci, ch in enumerate(chunks):
                open(os.path.join(wd, "part%d.cgt" % ci), "w").write(ledger.render(ch) if ch else ""); names.append("part%d.cgt" % ci)
            cmds["parse_files"] = ["parse"] + names; cmds["json_files"] = ["report"] + names + ["--format", "json"]
            if li % 2 == 0: cmds["plain_files"] = ["report"] + names
            ctx.count("input_files", nf)
            first = {}
            for k, args in cmds.items():
                outs = set()
                for pi in range(min(nproc, 10) if k == "pdf" else nproc):      # a PDF takes seconds to typeset
                    if k == "pdf" and os.path.exists(os.path.join(wd, "out.pdf")): os.remove(os.path.join(wd, "out.pdf"))
                    rc, out, err = cli(args, wd, timeout=120); ctx.evaluations += 1
                    if k == "pdf" and rc == 0: out = open(os.path.join(wd, "out.pdf"), "rb").read()
                    if k == "convert":
                        out = b"\n".join(l for l in out.split(b"\n") if not l.startswith(b"# Converted: ")) + b"\n--stderr--\n" + err
                    elif rc != 0: out = out + b"\n--stderr--\n" + err          # a failing command's message is its output
                    outs.add((rc, out))
                ctx.count("command", k); ctx.count("distinct_outputs_over_%d_processes" % nproc, len(outs))
                if len(outs) > 1:
                    a, b = list(outs)[:2]
                    i = next((i for i, (x, y) in enumerate(zip(a[1], b[1])) if x != y), min(len(a[1]), len(b[1])))
                    ctx.violation("`cgt-tool %s` gives different output in different processes (first difference at byte %d: %r vs %r)" % (" ".join(args), i, a[1][max(0, i - 60):i + 60], b[1][max(0, i - 60):i + 60]),
                                  {"input_dsl": ledger.render(ls), "schwab_json": open(os.path.join(wd, "tx.json")).read(), "command": args}, found_input=True); break
                first[k] = next(iter(outs))
            # canonical orders
            rc, out = first.get("json", (1, b""))
            if rc == 0:
                j = json.loads(out)
                ys = [y["period"] for y in j["tax_years"]]
                if ys != sorted(ys): ctx.violation("tax years not ascending: %s" % ys, {"input_dsl": ledger.render(ls)}, found_input=True)
                for y in j["tax_years"]:
                    ks = [(d["date"], d["ticker"]) for d in y["disposals"]]
                    if ks != sorted(ks): ctx.violation("disposals of %s not ordered by date then ticker: %s" % (y["period"], ks[:6]), {"input_dsl": ledger.render(ls)}, found_input=True)
                hs = [h["ticker"] for h in j["holdings"]]
                if hs != sorted(hs): ctx.violation("holdings not ordered by ticker: %s" % hs, {"input_dsl": ledger.render(ls)}, found_input=True)
            rc, out = first.get("plain", (1, b""))
            if rc == 0:
                txt = out.decode("utf-8")
                sec = txt.split("# TRANSACTIONS")[1].split("# ASSET EVENTS")[0]
                ks = []
                for l in sec.split("\n"):
                    mm = re.match(r"^(\d\d)/(\d\d)/(\d{4}) (BUY|SELL) \S+ (\S+) @", l)
                    if mm: ks.append((mm.group(3) + mm.group(2) + mm.group(1), mm.group(5)))
                if ks != sorted(ks): ctx.violation("echoed transactions of the text report not ordered by date then ticker: %s" % ks[:6], {"input_dsl": ledger.render(ls)}, found_input=True)
                hsec = [l.split(":")[0] for l in txt.split("# HOLDINGS")[1].split("# TRANSACTIONS")[0].split("\n") if ": " in l]
                if hsec != sorted(hsec): ctx.violation("holdings of the text report not ordered by ticker: %s" % hsec, {"input_dsl": ledger.render(ls)}, found_input=True)
            rc, out = first.get("convert", (1, b""))
            if rc == 0:
                body = out.split(b"\n--stderr--\n")[0].decode("utf-8")
                ds = [l.split()[0] for l in body.split("\n") if re.match(r"^\d{4}-\d\d-\d\d ", l)]
                if ds != sorted(ds): ctx.violation("converted lines not in date order", {"output": body[:600]}, found_input=True)
    finally:
        shutil.rmtree(root, ignore_errors=True)
