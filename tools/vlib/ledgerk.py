"""Correspondence K and code-only oracles for the ledger family (C01-C12)."""
import os, json, glob, datetime, itertools
from fractions import Fraction as F
from collections import defaultdict
from . import build, run, compare, ledger, gen, classes
from .ledger import Line

_EX = None
def exemptions():
    global _EX
    if _EX is None:
        r = run.run_harness([{"id": "cfg", "op": "config"}])["cfg"]
        if not r.get("ok"): raise RuntimeError("config: %s" % r)
        _EX = {int(k): v for k, v in r["exemptions"].items()}
    return _EX

def corpus_ledgers(gbp_only=True):
    out = {}
    pats = [os.path.join(build.REPO, "tests/inputs/*.cgt"), os.path.join(build.ROOT, "corpus", "*.cgt")]
    for pat in pats:
        for p in sorted(glob.glob(pat)):
            try: ls = ledger.parse_simple(open(p).read())
            except Exception: continue
            if gbp_only and not ledger.is_gbp(ls): continue
            out["corpus:" + os.path.basename(p)] = ls
    return out

def both(cases, year=None, ex=None, want_model=True):
    """cases: {id: lines} -> (model results, code results)"""
    ex = exemptions() if ex is None else ex
    mcases = []; rcases = []
    for cid, lines in cases.items():
        if want_model:
            ml = ["X %d %s" % (y, ledger.fr(v)) for y, v in sorted(ex.items())]
            if year is not None: ml.append("Y %d" % year)
            ml += ledger.model_lines(lines) + ["RUN report"]
            mcases.append((cid, ml))
        rc = {"id": cid, "op": "report", "dsl": ledger.render(lines), "year": year}
        if ex is not exemptions(): rc["exemptions"] = {str(k): str(v) for k, v in ex.items()}
        rcases.append(rc)
    return (run.run_model(mcases) if want_model else {}), run.run_harness(rcases)

def code_only(cases, year=None):
    return both(cases, year=year, want_model=False)[1]

# ---------- exact recomputation helpers over the abstract ledger ----------
def ratio_of(l):
    if l.kind == "SPLIT": return F(l.a)
    if l.kind == "UNSPLIT": return 1 / F(l.a) if F(l.a) != 0 else F(1)
    return F(1)

def per_day(lines, tick):
    """{ordinal: dict(b, bc, s, sg, sf, ratio)} for one security"""
    d = defaultdict(lambda: dict(b=F(0), bc=F(0), s=F(0), sg=F(0), sf=F(0), ratio=F(1), hasbuy=False, hassell=False))
    for l in lines:
        if l.tick.upper() != tick: continue
        x = d[l.date.toordinal()]
        if l.kind == "BUY": x["b"] += F(l.a); x["bc"] += F(l.a) * F(l.v) + F(l.x or 0); x["hasbuy"] = True
        elif l.kind == "SELL": x["s"] += F(l.a); x["sg"] += F(l.a) * F(l.v); x["sf"] += F(l.x or 0); x["hassell"] = True
        elif l.kind in ("SPLIT", "UNSPLIT"): x["ratio"] *= ratio_of(l)
        else: x  # touch
    return dict(d)

def rho(days, a, b):
    """product of the ratios of days with a <= day < b"""
    r = F(1)
    for z, x in days.items():
        if a <= z < b: r *= x["ratio"]
    return r

def ticks_of(lines): return sorted({l.tick.upper() for l in lines})

def tax_year(d):
    return d.year - 1 if (d.month, d.day) < (4, 6) else d.year

def signature(lines):
    """canonical form for distinctness: dates shifted to the first date, tickers renamed by first use"""
    if not lines: return ()
    d0 = min(l.date for l in lines); names = {}
    out = []
    for l in lines:
        t = names.setdefault(l.tick.upper(), len(names))
        out.append(((l.date - d0).days, t, l.kind, l.a, l.v, l.vcur, l.x, l.xcur))
    return tuple(out)

def stats(ctx, lines, rrep):
    ctx.count("ledger_lines", len(lines))
    ctx.count("securities", len(ticks_of(lines)))
    ctx.count("has_split", classes.has_splits(lines)); ctx.count("has_event", classes.has_events(lines))
    if rrep is None: return False
    nt = False
    for y in rrep["years"]:
        for d in y["disposals"]:
            rules = [l["rule"] for l in d["legs"]]
            ctx.count("legs_per_disposal", len(rules))
            for r in rules: ctx.count("rule", r)
            if rules != ["Section104"]: nt = True
    return nt

def shrink(lines, fails, budget=40):
    """greedy line dropping; fails(list_of_candidate_ledgers) -> list of bools (batched)"""
    cur = list(lines)
    while budget > 0 and len(cur) > 1:
        cands = [cur[:i] + cur[i + 1:] for i in range(len(cur))]
        res = fails(cands); budget -= 1
        nxt = next((c for c, bad in zip(cands, res) if bad), None)
        if nxt is None: break
        cur = nxt
    return cur
