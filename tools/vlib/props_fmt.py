"""C17: text, JSON and PDF front-ends present the same figures."""
import re, os, json, datetime, subprocess, binascii
from decimal import Decimal, ROUND_HALF_UP
from fractions import Fraction as F
from . import run, build, ledger, gen, compare, ledgerk as K
from .ledger import Line

def half_away_2(x):
    x = F(x); s = -1 if x < 0 else 1
    p = (abs(x) * 100 + F(1, 2)).__floor__()
    return s * F(p, 100)

def py_gbp(x):
    """independent rendering of the rule: pence, midpoints away from zero, thousands separators, -£"""
    r = half_away_2(x); p = abs(r) * 100
    ip, fp = divmod(int(p), 100)
    s = "£{:,}.{:02d}".format(ip, fp)
    return ("-" + s) if r < 0 else s

def model_fmt(items):
    """items: list of (kind, arg) -> list of strings from the extracted model"""
    cases = [("f%d" % i, ["RUN fmt %s %s" % (k, a)]) for i, (k, a) in enumerate(items)]
    res = run.run_model(cases)
    return [binascii.unhexlify(res["f%d" % i]["out_hex"]).decode("utf-8") for i in range(len(items))]

def read_money(s):
    s = s.replace("−", "-")
    m = re.fullmatch(r"(-?)£([\d,]+)\.(\d\d)", s)
    if not m: return None
    if not re.fullmatch(r"\d{1,3}(,\d{3})*", m.group(2)): return None
    v = F(int(m.group(2).replace(",", "")) * 100 + int(m.group(3)), 100)
    return -v if m.group(1) else v

def dmy(n): return datetime.date.fromordinal(n).strftime("%d/%m/%Y")
def ty(y): return "%d/%02d" % (y, (y + 1) % 100)

# ---------------- generator: midpoints, negatives, millions, long quantities ----------------
def gen_fmt(rng):
    t = rng.choice(["ACME", "Z9"]); d0 = datetime.date(rng.randint(2016, 2023), rng.randint(1, 12), rng.randint(1, 28))
    style = rng.random()
    ls = []
    if style < 0.35:      # exact half-pence midpoints: 1 share, prices ending in 5 at the third decimal
        ls.append(Line(d0, t, "BUY", "8", rng.choice(["1", "2", "1000000"]), "GBP", None))
        for i in range(rng.randint(1, 4)):
            p = "%d.%02d5" % (rng.choice([0, 1, 2, 999, 1000000]), rng.randint(0, 99))
            ls.append(Line(d0 + datetime.timedelta(days=40 + 40 * i), t, "SELL", "1", p, "GBP", rng.choice([None, "0.005", "0.015"])))
    elif style < 0.6:     # big amounts and losses
        ls.append(Line(d0, t, "BUY", rng.choice(["1000000", "123456.789", "2500000"]), rng.choice(["1.005", "12.345", "0.995"]), "GBP", "12.5"))
        ls.append(Line(d0 + datetime.timedelta(days=50), t, "SELL", rng.choice(["1000", "123456.789", "999999"]), rng.choice(["1.0049", "0.5", "12.3449", "2.125"]), "GBP", rng.choice([None, "7.775"])))
        ls.append(Line(d0 + datetime.timedelta(days=55), t, "BUY", "10", "3.335", "GBP", None))
    else:
        ls = gen.gen_ledger(rng, events=0.1, splits=0.1, small=0.3, dividends=0.2)
    if rng.random() < 0.4:
        ls.append(Line(d0 + datetime.timedelta(days=rng.randint(0, 300)), t, "DIVIDEND", None, rng.choice(["12.345", "0.005", "100"]), rng.choice(["GBP", "USD"]), rng.choice([None, "1.115"])))
    if rng.random() < 0.3:
        ls.append(Line(d0 + datetime.timedelta(days=10), t, "BUY", "0.000001", "123456.125", rng.choice(["GBP", "USD", "EUR"]), "0.5", "USD"))
    if rng.random() < 0.35:     # a second line of the same kind, security and date (another fill, another dividend)
        l = rng.choice(ls)
        if l.kind in ("BUY", "SELL"): ls.append(l.copy(v=rng.choice(gen.PRICE)) if l.kind == "BUY" else l.copy(a="0.5", v=rng.choice(gen.PRICE)))
        elif l.kind == "DIVIDEND": ls.append(l.copy(v="3.21"))
    return ls

# ---------------- the figure list of a report, from its full-precision values ----------------
def expected_figures(rep):
    """ordered list of (label, kind, value) where kind in money|qty|date|taxyear|int"""
    figs = []
    for y in rep["years"]:
        figs.append(("year", "taxyear", y["year"])); figs.append(("count", "int", y["count"]))
        for k in ("net", "gain", "loss"): figs.append((k, "money", F(y[k])))
        figs.append(("proceeds", "money", F(y["m_gross"]))); figs.append(("exempt", "money", F(y["exempt"]))); figs.append(("taxable", "money", F(y["taxable"])))
    return figs

def check_plain(rep, plain, fmt):
    """returns list of (what, shown, expected); fmt(x) -> expected GBP string"""
    bad = []
    lines = plain.split("\n")
    # summary rows
    rows = [l for l in lines if re.match(r"^\d{4}/\d{2}\s", l)]
    if len(rows) != len(rep["years"]): bad.append(("summary rows", len(rows), len(rep["years"])))
    for l, y in zip(rows, rep["years"]):
        c = l.split()
        exp = [ty(y["year"]), str(y["count"]), fmt(y["net"]), fmt(y["gain"]), fmt(y["loss"]), fmt(y["m_gross"]), fmt(y["exempt"]), fmt(y["taxable"])]
        if c != exp: bad.append(("summary %d" % y["year"], c, exp))
    # disposals in order
    heads = [l for l in lines if re.match(r"^\d+\) SELL ", l)]
    alld = [d for y in rep["years"] for d in y["disposals"]]
    if len(heads) != len(alld): bad.append(("disposal count", len(heads), len(alld)))
    blocks = re.split(r"\n(?=\d+\) SELL )", plain.split("# HOLDINGS")[0])[1:]
    for b, d in zip(blocks, alld):
        bl = [x for x in b.split("\n") if x.strip()]
        m = re.match(r"^(\d+)\) SELL (\S+) (\S+) on (\S+) - (GAIN|LOSS) (\S+)$", bl[0])
        g = F(d["m_gain"])
        if not m: bad.append(("disposal header", bl[0], None)); continue
        if F(m.group(2)) != F(d["qty"]): bad.append(("disposal qty", m.group(2), d["qty"]))
        if m.group(3) != d["tick"] or m.group(4) != dmy(d["date"]): bad.append(("disposal id", bl[0], (d["tick"], dmy(d["date"]))))
        if m.group(5) != ("GAIN" if g >= 0 else "LOSS") or m.group(6) != fmt(abs(g)): bad.append(("disposal gain", (m.group(5), m.group(6)), fmt(abs(g))))
        legl = [x.strip() for x in bl[1:] if re.match(r"^\s+(Same Day|B&B|Section 104):", x)]
        if len(legl) != len(d["legs"]): bad.append(("leg count", len(legl), len(d["legs"]))); continue
        for x, l in zip(legl, d["legs"]):
            if l["rule"] == "SameDay": mm = re.fullmatch(r"Same Day: (\S+) shares", x)
            elif l["rule"] == "BedAndBreakfast": mm = re.fullmatch(r"B&B: (\S+) shares from (\S+)", x)
            else: mm = re.fullmatch(r"Section 104: (\S+) shares @ £(\S+)", x)
            if not mm or F(mm.group(1)) != F(l["qty"]): bad.append(("leg", x, l)); continue
            if l["rule"] == "BedAndBreakfast" and mm.group(2) != dmy(l["acq"]): bad.append(("leg date", x, dmy(l["acq"])))
            if l["rule"] == "Section104" and F(l["qty"]) != 0:
                if F(mm.group(2)) != half_away_2(F(l["cost"]) / F(l["qty"])):
                    # the unit cost is a Decimal quotient: allow the 28-digit residue to sit on either side of a midpoint
                    if abs(F(mm.group(2)) - F(l["cost"]) / F(l["qty"])) > F(1, 200) + F(1, 10**20): bad.append(("leg unit cost", x, float(F(l["cost"]) / F(l["qty"]))))
        rest = "\n".join(bl[1:])
        mg = re.search(r"Gross Proceeds: (\S+) × £(\S+) = (\S+)", rest)
        if not mg or F(mg.group(1)) != F(d["qty"]) or mg.group(3) != fmt(d["gross"]): bad.append(("gross proceeds", mg and mg.group(0), fmt(d["gross"])))
        mn = re.search(r"Net Proceeds: (\S+) - (\S+) fees = (\S+)", rest)
        fees = F(d["gross"]) - F(d["net"])
        if fees > 0:
            if not mn or mn.group(1) != fmt(d["gross"]) or mn.group(2) != fmt(fees) or mn.group(3) != fmt(d["net"]): bad.append(("net proceeds", mn and mn.group(0), (fmt(d["gross"]), fmt(fees), fmt(d["net"]))))
        elif mn: bad.append(("net proceeds shown without fees", mn.group(0), None))
        mc = re.search(r"Cost: (\S+)", rest); mr = re.search(r"Result: (\S+)", rest)
        if not mc or mc.group(1) != fmt(d["m_cost"]): bad.append(("cost", mc and mc.group(1), fmt(d["m_cost"])))
        if not mr or mr.group(1) != fmt(g): bad.append(("result", mr and mr.group(1), fmt(g)))
    # holdings
    hsec = plain.split("# HOLDINGS")[1].split("# TRANSACTIONS")[0]
    hl = [x for x in hsec.split("\n") if ": " in x and "units at" in x]
    active = [h for h in rep["holdings"] if F(h["qty"]) > 0]
    if len(hl) != len(active): bad.append(("holdings rows", len(hl), len(active)))
    for x, h in zip(hl, active):
        m = re.fullmatch(r"(\S+): (\S+) units at £(\S+) avg cost", x.strip())
        if not m or m.group(1) != h["tick"] or F(m.group(2)) != F(h["qty"]): bad.append(("holding", x, h)); continue
        if abs(F(m.group(3)) - F(h["cost"]) / F(h["qty"])) > F(1, 200) + F(1, 10**20): bad.append(("holding avg cost", x, float(F(h["cost"]) / F(h["qty"]))))
    return bad

def check_json(rep, js):
    bad = []
    try: j = json.loads(js)
    except Exception as e: return [("json parse", str(e), None)]
    def money(shown, val, what):
        if F(shown) != half_away_2(val): bad.append((what, shown, str(half_away_2(val))))
        elif "." in shown and len(shown.split(".")[1]) > 2: bad.append((what + " places", shown, None))
    if len(j["tax_years"]) != len(rep["years"]): return [("json years", len(j["tax_years"]), len(rep["years"]))]
    for a, y in zip(j["tax_years"], rep["years"]):
        if a["period"] != ty(y["year"]): bad.append(("period", a["period"], ty(y["year"])))
        if a["disposal_count"] != y["count"]: bad.append(("count", a["disposal_count"], y["count"]))
        for k, kk in (("total_gain", "gain"), ("total_loss", "loss"), ("net_gain", "net"), ("exempt_amount", "exempt"), ("dividend_income", "div_income"), ("dividend_tax_paid", "div_tax")):
            money(a[k], y[kk], k)
        if len(a["disposals"]) != len(y["disposals"]): bad.append(("json disposals", len(a["disposals"]), len(y["disposals"]))); continue
        for b, d in zip(a["disposals"], y["disposals"]):
            if b["ticker"] != d["tick"] or b["date"] != datetime.date.fromordinal(d["date"]).isoformat(): bad.append(("json disposal id", (b["ticker"], b["date"]), d["tick"]))
            if F(b["quantity"]) != F(d["qty"]): bad.append(("json qty", b["quantity"], d["qty"]))
            money(b["gross_proceeds"], d["gross"], "gross_proceeds"); money(b["proceeds"], d["net"], "proceeds")
            if len(b["matches"]) != len(d["legs"]): bad.append(("json legs", len(b["matches"]), len(d["legs"]))); continue
            for m, l in zip(b["matches"], d["legs"]):
                if m["rule"] != l["rule"] or F(m["quantity"]) != F(l["qty"]): bad.append(("json leg", m, l))
                money(m["allowable_cost"], l["cost"], "allowable_cost"); money(m["gain_or_loss"], l["gain"], "gain_or_loss")
                if (m.get("acquisition_date") or None) != (datetime.date.fromordinal(l["acq"]).isoformat() if l["acq"] else None): bad.append(("json acq", m.get("acquisition_date"), l["acq"]))
    if [h["ticker"] for h in j["holdings"]] != [h["tick"] for h in rep["holdings"]]: bad.append(("json holdings", None, None))
    else:
        for a, h in zip(j["holdings"], rep["holdings"]):
            if F(a["quantity"]) != F(h["qty"]): bad.append(("json holding qty", a["quantity"], h["qty"]))
            money(a["total_cost"], h["cost"], "holding total_cost")
    return bad

def half_away_n(x, n):
    x = F(x); s = -1 if x < 0 else 1
    p = (abs(x) * 10**n + F(1, 2)).__floor__()
    return s * F(p, 10**n)
def fixed(x, n):
    x = F(x); s = "-" if x < 0 else ""
    p = int(abs(x) * 10**n)
    if n == 0: return s + str(p)
    d = str(p).rjust(n + 1, "0")
    return s + d[:-n] + "." + d[-n:]
def trimmed(s):
    return s.rstrip("0").rstrip(".") if "." in s else s

def check_plain_echo(txshow, plain, fmt):
    """the TRANSACTIONS and ASSET EVENTS sections against the transactions themselves (sorted by date, ticker; stable)"""
    from .props_dsl import currency_info
    info = currency_info(); bad = []
    def cur_amount(v, c):
        if c == "GBP": return fmt(F(v))
        n = info[c]["exponent"] if info[c]["exponent"] is not None else 2
        return "%s %s" % (fixed(half_away_n(F(v), n), n), c)
    def price(v, c):
        sym = info[c]["symbol"]
        return (sym if sym else c) + trimmed(v)
    tx = [t.split("|") for t in txshow]
    def key(t): return (t[0], t[1])
    trades = sorted([t for t in tx if t[2] in ("BUY", "SELL")], key=key)
    events = sorted([t for t in tx if t[2] not in ("BUY", "SELL")], key=key)
    def d(iso): return datetime.date.fromisoformat(iso).strftime("%d/%m/%Y")
    exp_t = ["%s %s %s %s @ %s (%s fees)" % (d(t[0]), t[2], trimmed(t[3]), t[1], price(t[4], t[5]), price(t[6], t[7])) for t in trades]
    exp_e = []
    for t in events:
        if t[2] == "DIVIDEND": exp_e.append("%s DIVIDEND %s %s" % (d(t[0]), t[1], cur_amount(t[3], t[4])))
        elif t[2] in ("ACCUMULATION", "CAPRETURN"): exp_e.append("%s %s %s %s %s" % (d(t[0]), t[2], t[1], trimmed(t[3]), cur_amount(t[4], t[5])))
        else: exp_e.append("%s %s %s %s" % (d(t[0]), t[2], t[1], trimmed(t[3])))
    sec = plain.split("# TRANSACTIONS")[1]
    got_t = [l for l in sec.split("# ASSET EVENTS")[0].split("\n") if l.strip()]
    got_e = [l for l in (sec.split("# ASSET EVENTS")[1] if "# ASSET EVENTS" in sec else "").split("\n") if l.strip()]
    if got_t != exp_t:
        i = next((i for i, (a, b) in enumerate(zip(got_t, exp_t)) if a != b), min(len(got_t), len(exp_t)))
        bad.append(("transaction echo", got_t[i] if i < len(got_t) else None, exp_t[i] if i < len(exp_t) else None))
    if got_e != exp_e:
        i = next((i for i, (a, b) in enumerate(zip(got_e, exp_e)) if a != b), min(len(got_e), len(exp_e)))
        bad.append(("asset event echo", got_e[i] if i < len(got_e) else None, exp_e[i] if i < len(exp_e) else None))
    return bad

def f64_midpoint(x):
    """value*100 has fractional part exactly one half: the PDF path rounds a binary float (known finding)"""
    return (F(x) * 100 - (F(x) * 100).__floor__()) == F(1, 2)

def pdf_tokens(runs):
    """money tokens of the PDF in frame order; a minus sign may be a run of its own (it can even be wrapped
    onto its own line in a narrow table cell) and belongs to the figure that follows"""
    out = []; pending = False
    for r in runs:
        r = r.strip()
        if r in ("−", "-"): pending = True; continue
        for m in re.finditer(r"([−-]?)\s*(£[\d,]+\.\d\d)", r):
            neg = bool(m.group(1)) or (pending and m.start() == 0)
            out.append(("-" if neg else "") + m.group(2))
        pending = r.endswith("−") or r.endswith("-")
    return out

def near_midpoint(x):
    y = F(x) * 100
    return abs(y - y.__floor__() - F(1, 2)) < F(1, 10**7)

def check_pdf(rep, pdf, txshow, fmt):
    """returns (bad, midpoint_hits): every money figure the PDF shows is the pence rounding of a value of the
    report, and the figures the property names are all there"""
    bad = []; mid = []
    runs = pdf["runs"]; toks = pdf_tokens(runs)
    V = set()
    for y in rep["years"]:
        for k in ("net", "gain", "loss", "m_gross", "exempt", "taxable", "div_income", "div_tax"): V.add(F(y[k]))
        for d in y["disposals"]:
            for k in ("gross", "net", "m_cost", "m_gain"): V.add(F(d[k])); V.add(abs(F(d[k])))
            V.add(F(d["gross"]) - F(d["net"]))
            if F(d["qty"]) != 0: V.add(F(d["gross"]) / F(d["qty"]))
            for l in d["legs"]:
                V.add(F(l["cost"])); V.add(F(l["gain"]))
                if F(l["qty"]) != 0: V.add(F(l["cost"]) / F(l["qty"]))
    for h in rep["holdings"]:
        V.add(F(h["cost"]))
        if F(h["qty"]) != 0: V.add(F(h["cost"]) / F(h["qty"]))
    for t in txshow:
        for part in t.split("|"):
            if re.fullmatch(r"\d+(\.\d+)?", part): V.add(F(part))
    by_round = {}
    for x in V: by_round.setdefault(half_away_2(x), []).append(x)
    def explain(tok):
        v = read_money(tok)
        if v is None: return "unreadable"
        if v in by_round or -v in by_round or (v == 0 and any(half_away_2(x) == 0 for x in V)): return None
        # one penny off a value sitting on a half-pence midpoint: the PDF path rounds a binary float
        for x in V:
            if abs(abs(v) - abs(F(x))) <= F(1, 200) + F(1, 10**7) and near_midpoint(x): return "midpoint"
        return "no value of the report rounds to this figure"
    for t in toks:
        e = explain(t)
        if e == "midpoint": mid.append(("pdf figure", t, "a value on a half-pence midpoint"))
        elif e: bad.append(("pdf figure", t, e))
    def present(x, what):
        want = fmt(x)
        if want in toks or (half_away_2(x) == 0 and any(read_money(t) == 0 for t in toks)): return
        if near_midpoint(x) and any(read_money(t) is not None and abs(abs(read_money(t)) - abs(F(x))) <= F(1, 200) + F(1, 10**7) for t in toks):
            mid.append((what, "shown a penny off", want)); return
        bad.append((what, "missing", want))
    alld = [d for y in rep["years"] for d in y["disposals"]]
    for y in rep["years"]:
        if ty(y["year"]) not in runs: bad.append(("pdf tax year", "missing", ty(y["year"])))
        for k in ("net", "gain", "loss", "m_gross", "exempt", "taxable"): present(y[k], "pdf summary " + k)
    for d in alld:
        present(abs(F(d["m_gain"])), "pdf disposal gain"); present(d["m_cost"], "pdf cost"); present(d["m_gain"], "pdf result"); present(d["gross"], "pdf gross proceeds")
    sold = [r for r in runs if r.startswith("Sold ")]
    if sorted(sold) != sorted("Sold " + dmy(d["date"]) for d in alld): bad.append(("pdf disposals", sold[:4], [dmy(d["date"]) for d in alld][:4]))
    shares = [r for r in runs if re.fullmatch(r"[\d.]+ shares", r)]
    for r, d in zip(shares, alld):
        if abs(F(r.split()[0]) - F(d["qty"])) > F(1, 2 * 10**6): bad.append(("pdf disposal quantity", r, d["qty"]))
    return bad, mid

ROW_KINDS = ("BUY", "SELL", "DIVIDEND", "CAPRETURN", "ACCUMULATION", "SPLIT", "UNSPLIT")
def check_pdf_rows(runs, txshow):
    """the PDF's Transactions and Asset Events tables list exactly the transactions of the report: the multiset of
    (date, type, security, quantity-or-ratio) rows read from the text runs against the transactions themselves"""
    got = []
    for i in range(1, len(runs) - 2):
        if runs[i] in ROW_KINDS and re.fullmatch(r"\d\d/\d\d/\d{4}", runs[i - 1]):
            got.append((runs[i - 1], runs[i], runs[i + 1], runs[i + 2]))
    exp = []
    for t in txshow:
        f = t.split("|")
        exp.append((datetime.date.fromisoformat(f[0]).strftime("%d/%m/%Y"), f[2], f[1], "-" if f[2] == "DIVIDEND" else f[3]))
    def qv(q):
        try: return F(q)
        except Exception: return None
    a = [(r[0], r[1], r[2].upper(), r[3]) for r in got]; b = [(r[0], r[1], r[2].upper(), r[3]) for r in exp]
    left = list(a); miss = []
    for e in b:
        hit = None
        for g in left:
            if g[:3] != e[:3]: continue
            x, y = qv(g[3]), qv(e[3])
            if (x is None or y is None) and g[3] == e[3]: hit = g; break
            if x is not None and y is not None and abs(x - y) <= F(1, 2 * 10**6): hit = g; break     # the PDF shows six decimal places
        if hit is None: miss.append(e)
        else: left.remove(hit)
    if not miss and not left: return []
    return [("pdf transaction rows", "%d rows, e.g. extra %s" % (len(a), left[:2]), "%d rows, e.g. missing %s" % (len(b), miss[:2]))]

def cli_same_as_library(ctx, cases, res):
    import shutil
    root = os.path.join(build.CACHE, "run", "c17cli-%d" % os.getpid()); shutil.rmtree(root, ignore_errors=True); os.makedirs(root)
    try:
        picked = [c for c in cases if res[c].get("ok")][:ctx.n(30, 400)]
        ycases = []
        for cid in picked:
            ys = [y["year"] for y in res[cid]["report"]["years"]]
            if ys: ycases.append({"id": cid + "@y", "op": "format", "dsl": ledger.render(cases[cid]), "year": ctx.rng.choice(ys)})
        yres = run.run_harness(ycases); yof = {c["id"][:-2]: c["year"] for c in ycases}
        for cid in picked:
            wd = os.path.join(root, cid.replace(":", "_").replace("/", "_")); os.makedirs(wd, exist_ok=True)
            open(os.path.join(wd, "in.cgt"), "w").write(ledger.render(cases[cid]))
            runs = [([], res[cid])]
            if cid in yof and yres.get(cid + "@y", {}).get("ok"): runs.append((["--year", str(yof[cid])], yres[cid + "@y"]))
            for extra, lib in runs:
                for fmtname, key in (("json", "json"), ("plain", "plain")):
                    p = subprocess.run([build.CLI, "report", "in.cgt", "--format", fmtname] + extra, cwd=wd, stdout=subprocess.PIPE, stderr=subprocess.PIPE, text=True, env=dict(build.ENV, HOME=wd), timeout=120)
                    ctx.evaluations += 1; ctx.count("cli_vs_library_" + fmtname + ("_year" if extra else ""), p.returncode)
                    if p.returncode != 0 or p.stdout.rstrip("\n") != lib[key].rstrip("\n"):
                        ctx.violation("`cgt-tool report --format %s %s` does not print what the library formatter produces (exit %d)" % (fmtname, " ".join(extra), p.returncode),
                                      {"input_dsl": ledger.render(cases[cid]), "cli_stdout": p.stdout[-1500:], "library": lib[key][-1500:], "stderr": p.stderr[-300:]}, found_input=True)
                        return
    finally:
        shutil.rmtree(root, ignore_errors=True)

def mcp_figures(ctx, cases, res):
    """The MCP front-end: every money figure explain_matching shows for a disposal (proceeds, each leg's cost and gain, the total) and
    calculate_report lists is the computed value in full or its pence rounding with midpoints away from zero."""
    import shutil
    from . import props_mcp as PM, mcp as MCP
    def has_mid(r): return any(near_midpoint(l[k]) for y in r["report"]["years"] for d in y["disposals"] for l in d["legs"] for k in ("cost", "gain"))
    ok = [c for c in cases if res[c].get("ok") and any(y["disposals"] for y in res[c]["report"]["years"])]
    picked = ([c for c in ok if has_mid(res[c])] + [c for c in ok if not has_mid(res[c])])[:ctx.n(14, 200)]
    if not picked: return
    root = os.path.join(build.CACHE, "run", "c17mcp-%d" % os.getpid()); shutil.rmtree(root, ignore_errors=True)
    try:
        reqs = []; idx = []
        for cid in picked:
            dsl = ledger.render(cases[cid])
            for y in res[cid]["report"]["years"]:
                for d in y["disposals"][:3]:
                    reqs.append((cid, ("tools/call", {"name": "explain_matching", "arguments": {"transactions": dsl, "disposal_date": compare.iso_of_ordinal(d["date"]) if isinstance(d["date"], int) else d["date"], "ticker": d["tick"]}})))
                    idx.append((cid, d))
        r = PM.run_session(root, reqs, True, "int")
        def shown_ok(shown, value):
            try: s_ = F(shown)
            except Exception: return False
            return s_ == F(value) or s_ == half_away_2(value)
        for k, (cid, d) in enumerate(idx):
            rr = r["got"].get(json.dumps(r["ids"][k]), [None])[0] if k < len(r["ids"]) else None
            txt, iserr = MCP.tool_text(rr) if rr else (None, True)
            ctx.evaluations += 1
            if rr is None or "error" in rr or iserr: continue          # C20's business
            j = json.loads(txt); bad = []
            if not (shown_ok(j["proceeds"], d["net"]) or shown_ok(j["proceeds"], d["gross"])): bad.append(("proceeds", j["proceeds"], d["net"]))
            if len(j["matches"]) == len(d["legs"]):
                for a, b in zip(j["matches"], d["legs"]):
                    if not shown_ok(a["allowable_cost"], b["cost"]): bad.append(("leg cost", a["allowable_cost"], b["cost"]))
                    if not shown_ok(a["gain_or_loss"], b["gain"]): bad.append(("leg gain", a["gain_or_loss"], b["gain"]))
            if not shown_ok(j["total_gain_or_loss"], d["m_gain"]): bad.append(("total gain", j["total_gain_or_loss"], d["m_gain"]))
            ctx.count("mcp_explain_figures", "ok" if not bad else "differs")
            if bad:
                ctx.disagreements_checked += 1
                ctx.violation("MCP explain_matching shows %s %s, the computed value is %s (neither in full nor rounded to pence with midpoints away from zero)" % bad[0],
                              {"input_dsl": ledger.render(cases[cid]), "disposal": d, "explain_matching": j, "differences": [list(map(str, b)) for b in bad[:6]], "case_id": cid}, found_input=True)
                return
    finally:
        shutil.rmtree(root, ignore_errors=True)

def k_c17(ctx):
    rng = ctx.rng
    n = ctx.n(300, 5000); npdf = ctx.n(40, 600)
    cases = {"f%d" % i: gen_fmt(rng) for i in range(n)}
    for k, v in list(K.corpus_ledgers(gbp_only=False).items())[:60]: cases[k] = v
    hc = [{"id": cid, "op": "format", "dsl": ledger.render(ls)} for cid, ls in cases.items()]
    res = run.run_harness(hc)
    # every money value that will be displayed -> model's expected string (batched)
    vals = set()
    for cid, r in res.items():
        if not r.get("ok"): continue
        rep = r["report"]
        for y in rep["years"]:
            for k in ("net", "gain", "loss", "m_gross", "exempt", "taxable", "div_income", "div_tax"): vals.add(F(y[k]))
            for d in y["disposals"]:
                for k in ("gross", "net", "m_cost", "m_gain"): vals.add(F(d[k])); vals.add(abs(F(d[k])))
                vals.add(F(d["gross"]) - F(d["net"]))
    vals = sorted(vals)
    shown = model_fmt([("gbp", ledger.fr(v)) for v in vals])
    table = dict(zip(vals, shown))
    nmid = sum(1 for v in vals if f64_midpoint(v))
    ctx.count("distinct_money_values", len(vals)); ctx.count("values_on_half_pence_midpoints", nmid)
    ctx.count("negative_values", sum(1 for v in vals if v < 0)); ctx.count("values_over_a_million", sum(1 for v in vals if abs(v) >= 10**6))
    # the model's format against the independent statement of the rule, and its reader
    for v, s in table.items():
        ctx.evaluations += 1
        if s != py_gbp(v) and not (half_away_2(v) == 0 and v < 0):
            ctx.violation("model format_gbp(%s) = %s but the rule gives %s" % (v, s, py_gbp(v)), {"value": str(v), "model": s, "rule": py_gbp(v), "correspondence": "Fmt.format_gbp"}, found_input=False)
    def fmt(x): return table.get(F(x)) or py_gbp(F(x))
    pdf_cases = []
    for cid, ls in cases.items():
        r = res[cid]; ctx.evaluations += 1; ctx.traces += 1
        ctx.count("code_outcome", "ok" if r.get("ok") else r.get("stage"))
        if not r.get("ok"): continue
        rep = r["report"]
        if rep["years"]: ctx.nontrivial.add(K.signature(ls))
        ctx.sample({"id": cid, "dsl": ledger.render(ls)}, limit=3)
        bad = [("plain",) + b for b in check_plain(rep, r["plain"], fmt)] + [("plain",) + b for b in check_plain_echo(r["transactions"], r["plain"], fmt)] + [("json",) + b for b in check_json(rep, r["json"])]
        if bad:
            ctx.disagreements_checked += 1
            ctx.violation("%s front-end shows %s: %s, expected %s" % bad[0], {"input_dsl": ledger.render(ls), "differences": [list(map(str, b)) for b in bad[:8]], "plain": r["plain"], "json": r["json"], "case_id": cid}, found_input=True)
        if len(pdf_cases) < npdf and rep["years"]: pdf_cases.append(cid)
    # the command-line front-end prints what the library's formatters produce (all years and one tax year)
    cli_same_as_library(ctx, cases, res)
    mcp_figures(ctx, cases, res)
    # PDF through the hook
    if pdf_cases:
        out = subprocess.run([build.PDF_HARNESS], input="".join(json.dumps({"id": c, "dsl": ledger.render(cases[c])}) + "\n" for c in pdf_cases),
                             stdout=subprocess.PIPE, stderr=subprocess.PIPE, text=True, env=build.ENV, timeout=1200)
        pr = {}
        for l in out.stdout.splitlines():
            if l.strip(): x = json.loads(l); pr[x["id"]] = x
        from .props_ledger2 import load_known_text
        for cid in pdf_cases:
            ctx.evaluations += 1
            p = pr.get(cid)
            if not p or not p.get("ok"):
                ctx.violation("PDF front-end fails where the text front-end succeeds: %s" % (p and p.get("error")), {"input_dsl": ledger.render(cases[cid]), "code": p}, found_input=True); continue
            bad, mid = check_pdf(res[cid]["report"], p, res[cid].get("transactions", []), fmt)
            bad += check_pdf_rows(p["runs"], res[cid].get("transactions", []))
            ctx.count("pdf_reports", 1)
            if mid:
                kt = load_known_text("C17", "kf_pdf_binary_midpoint")
                ctx.count("pdf_midpoint_figures_shown_a_penny_off", len(mid))
                if kt: ctx.known(kt)
                else: bad += mid
            if bad:
                ctx.disagreements_checked += 1
                ctx.violation("PDF shows %s: %s, expected %s" % bad[0], {"input_dsl": ledger.render(cases[cid]), "differences": [list(map(str, b)) for b in bad[:8]], "pdf_lines": p["lines"], "case_id": cid}, found_input=True)
