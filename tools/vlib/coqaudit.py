"""Audit of the Coq development: theorem list of a property file, Print Assumptions of each,
forbidden-token scan."""
import os, re, subprocess, glob
from . import build

FORBIDDEN = re.compile(r"\b(Admitted|admit|Axiom|Axioms|Parameter|Parameters|Conjecture|Hypothesis|Variable|Abort)\b|Unset\s+Guard|Guard\s+Checking|bypass_check|Admit\s+Obligations|type-in-type|impredicative-set|Unset\s+Universe\s+Checking|Unset\s+Positivity")

def strip_comments(text):
    out = []; depth = 0; i = 0
    while i < len(text):
        if text.startswith("(*", i): depth += 1; i += 2
        elif text.startswith("*)", i) and depth > 0: depth -= 1; i += 2
        else:
            if depth == 0: out.append(text[i])
            i += 1
    return "".join(out)

def scan_forbidden():
    """returns list of (file, line, token) outside comments.  Variable/Hypothesis inside a Section are
    legitimate (Context is used instead in this development, so any hit is reported)."""
    hits = []
    for p in sorted(glob.glob(os.path.join(build.COQ, "**", "*.v"), recursive=True)):
        txt = strip_comments(open(p).read())
        for n, line in enumerate(txt.splitlines(), 1):
            m = FORBIDDEN.search(line)
            if m: hits.append((os.path.relpath(p, build.COQ), n, m.group(0)))
    return hits

def theorems_of(vfile):
    txt = strip_comments(open(os.path.join(build.COQ, vfile)).read())
    return re.findall(r"^\s*Theorem\s+(\w+)", txt, re.M)

def allowlist():
    p = os.path.join(build.COQ, "axioms.allow")
    if not os.path.exists(p): return set()
    return {l.strip() for l in open(p) if l.strip() and not l.startswith("#")}

def print_assumptions(module, names):
    """{name: [] (closed) | [axiom names]}"""
    d = os.path.join(build.CACHE, "audit"); os.makedirs(d, exist_ok=True)
    f = os.path.join(d, "Audit_%s.v" % module.replace(".", "_"))
    with open(f, "w") as fh:
        fh.write("Require Import CGT.%s.\n" % module)
        for n in names:
            fh.write('Print Assumptions %s.\n' % n)
            fh.write('Check tt. (* SEP *)\n')
    p = subprocess.run(["timeout", "300", "coqc", "-Q", build.COQ, "CGT", f], stdout=subprocess.PIPE, stderr=subprocess.STDOUT, text=True)
    if p.returncode != 0:
        raise build.BuildError("coq-audit", p.stdout)
    res = {}
    chunks = p.stdout.split("tt\n     : unit")
    for n, ch in zip(names, chunks):
        if "Closed under the global context" in ch: res[n] = []
        else:
            ax = re.findall(r"^(\S+)\s*:", ch, re.M)
            res[n] = [a for a in ax if a not in ("Axioms",)]
    return res


def coqchk(module):
    """independent re-check of the compiled theory behind a property file; returns (ok, summary dict)"""
    p = subprocess.run(["timeout", "1500", "coqchk", "-silent", "-o", "-Q", build.COQ, "CGT", "CGT.%s" % module],
                       stdout=subprocess.PIPE, stderr=subprocess.STDOUT, text=True)
    out = p.stdout
    summ = {}
    for key, label in (("axioms", "Axioms"), ("type_in_type", "Constants/Inductives relying on type-in-type"),
                       ("unsafe_fix", "Constants/Inductives relying on unsafe (co)fixpoints"), ("positivity_assumed", "Inductives whose positivity is assumed")):
        m = re.search(r"\* " + re.escape(label) + r":(.*?)(?=\n\* |\Z)", out, re.S)
        summ[key] = " ".join(m.group(1).split()) if m else "?"
    ok = p.returncode == 0 and all(v == "<none>" for v in summ.values())
    return ok, summ, out[-800:]
