"""Builds: regenerated constants, the Coq development (full .vo), the extracted model's
driver, the Rust harness against /repo's current working tree.  All under one flock."""
import os, subprocess, sys, time, fcntl, json, shutil, hashlib, re
ROOT = os.path.abspath(os.path.join(os.path.dirname(__file__), "..", ".."))
CACHE = os.path.join(ROOT, ".cache")
COQ = os.path.join(ROOT, "coq")
DRIVER = os.path.join(CACHE, "driver", "model_driver")
HARNESS = os.path.join(CACHE, "target", "debug", "cgt-verif-harness")
CLI = os.path.join(CACHE, "target", "debug", "cgt-tool")
PDF_HARNESS = os.path.join(CACHE, "target", "debug", "cgt-verif-harness-pdf")
ENV = dict(os.environ, RUST_BACKTRACE="0", CARGO_NET_OFFLINE="true", CARGO_TARGET_DIR=os.path.join(CACHE, "target"))

class BuildError(Exception):
    def __init__(self, stage, detail, theorem=None):
        super().__init__(stage + ": " + detail[-2000:]); self.stage, self.detail, self.theorem = stage, detail, theorem

def sh(cmd, cwd=None, timeout=1800, env=None):
    p = subprocess.run(cmd, cwd=cwd, shell=isinstance(cmd, str), stdout=subprocess.PIPE, stderr=subprocess.STDOUT,
                       text=True, timeout=timeout, env=env or ENV)
    return p.returncode, p.stdout

class Lock:
    def __enter__(self):
        os.makedirs(CACHE, exist_ok=True)
        self.f = open(os.path.join(CACHE, "build.lock"), "w"); fcntl.flock(self.f, fcntl.LOCK_EX); return self
    def __exit__(self, *a):
        fcntl.flock(self.f, fcntl.LOCK_UN); self.f.close()

def gen_params():
    rc, out = sh([sys.executable, os.path.join(ROOT, "tools", "gen_params.py")])
    if rc != 0: raise BuildError("gen_params", out)
    return json.loads(out.strip().splitlines()[-1])

def coq_make(targets):
    """make the given .vo targets (full build of their dependencies); returns the log."""
    if not os.path.exists(os.path.join(COQ, "Makefile")) or \
       os.path.getmtime(os.path.join(COQ, "Makefile")) < os.path.getmtime(os.path.join(COQ, "_CoqProject")):
        rc, out = sh("coq_makefile -f _CoqProject -o Makefile", cwd=COQ)
        if rc != 0: raise BuildError("coq_makefile", out)
    rc, out = sh(["timeout", "1500", "make", "-j16"] + targets, cwd=COQ, timeout=1600)
    if rc != 0:
        m = re.search(r'File "\./([^"]+)", line (\d+)', out)
        raise BuildError("coq", out, theorem=(m.group(1) + ":" + m.group(2)) if m else None)
    return out

def build_driver():
    coq_make(["Extract.vo"])
    d = os.path.join(CACHE, "driver"); os.makedirs(d, exist_ok=True)
    srcs = [os.path.join(COQ, "model.ml"), os.path.join(COQ, "model.mli"), os.path.join(ROOT, "driver", "main.ml")]
    h = hashlib.sha256()
    for s in srcs: h.update(open(s, "rb").read())
    stamp = os.path.join(d, "stamp")
    if os.path.exists(DRIVER) and os.path.exists(stamp) and open(stamp).read() == h.hexdigest():
        return
    for s in srcs: shutil.copy(s, d)
    rc, out = sh("ocamlfind ocamlopt -O2 -w -a model.mli model.ml main.ml -o model_driver", cwd=d)
    if rc != 0: raise BuildError("ocaml", out)
    open(stamp, "w").write(h.hexdigest())

def build_harness():
    h = os.path.join(ROOT, "harness")
    shutil.copy("/repo/Cargo.lock", os.path.join(h, "Cargo.lock"))
    rc, out = sh("cargo build --offline 2>&1", cwd=h, timeout=1700)
    if rc != 0:
        # a lock file from a changed tree may not resolve for the harness; retry letting cargo adjust it
        rc, out = sh("cargo build --offline 2>&1", cwd=h, timeout=1700)
    if rc != 0: raise BuildError("cargo-harness", out)

def build_pdf_harness():
    h = os.path.join(ROOT, "harness_pdf")
    shutil.copy("/repo/Cargo.lock", os.path.join(h, "Cargo.lock"))
    rc, out = sh("cargo build --offline 2>&1", cwd=h, timeout=1700)
    if rc != 0: raise BuildError("cargo-harness-pdf", out)

def build_cli():
    rc, out = sh("cargo build --offline -p cgt-cli 2>&1", cwd="/repo", timeout=1700)
    if rc != 0: raise BuildError("cargo-cli", out)

def build_all(coq_targets, need_cli=False, need_pdf=False):
    t0 = time.time()
    with Lock():
        params = gen_params()
        build_driver()
        log = coq_make(coq_targets) if coq_targets else ""
        build_harness()
        if need_cli: build_cli()
        if need_pdf: build_pdf_harness()
    return {"params": params, "coq_log": log, "build_s": round(time.time() - t0, 1)}
