"""Builds: regenerated constants, the Coq development (full .vo), the extracted model's
driver, the Rust harness against /repo's current working tree.  All under one flock."""
import os, subprocess, sys, time, fcntl, json, shutil, hashlib, re
ROOT = os.path.abspath(os.path.join(os.path.dirname(__file__), "..", ".."))
SRC = ROOT        # where the committed machinery lives (coq/, driver/, harness/, corpus/, known_findings.json)
# Scratch mode (testing the machinery against another checkout, e.g. a seeded worktree, possibly several at once): VERIF_REPO names the
# checkout and VERIF_SCRATCH a private directory that receives a copy of coq/, every build product, evidence and replays.
# The registered commands never set these: they work on /repo and write under /verif.
REPO = os.environ.get("VERIF_REPO", "/repo")
SCRATCH = os.environ.get("VERIF_SCRATCH")
if REPO != "/repo" and not SCRATCH: raise SystemExit("VERIF_REPO needs VERIF_SCRATCH (a private directory for builds and outputs)")
OUT = SCRATCH or ROOT      # evidence/ and replays/ go here
CACHE = os.path.join(SCRATCH, "cache") if SCRATCH else os.path.join(ROOT, ".cache")
COQ = os.path.join(SCRATCH, "coq") if SCRATCH else os.path.join(ROOT, "coq")
DRIVER = os.path.join(CACHE, "driver", "model_driver")
HARNESS = os.path.join(CACHE, "target", "debug", "cgt-verif-harness")
CLI = os.path.join(CACHE, "target", "debug", "cgt-tool")
PDF_HARNESS = os.path.join(CACHE, "target", "debug", "cgt-verif-harness-pdf")
ENV = dict(os.environ, RUST_BACKTRACE="0", CARGO_NET_OFFLINE="true", CARGO_TARGET_DIR=os.path.join(CACHE, "target"))

class BuildError(Exception):
    def __init__(self, stage, detail, theorem=None):
        super().__init__(stage + ": " + detail[-2000:]); self.stage, self.detail, self.theorem = stage, detail, theorem

def sh(cmd, cwd=None, timeout=1800, env=None):
    p = subprocess.run(cmd, cwd=cwd, shell=isinstance(cmd, str), stdout=subprocess.PIPE, stderr=subprocess.STDOUT,
                       text=True, timeout=timeout, env=env or ENV)
    return p.returncode, p.stdout

class Lock:
    def __enter__(self):
        os.makedirs(CACHE, exist_ok=True)
        self.f = open(os.path.join(CACHE, "build.lock"), "w"); fcntl.flock(self.f, fcntl.LOCK_EX); return self
    def __exit__(self, *a):
        fcntl.flock(self.f, fcntl.LOCK_UN); self.f.close()

def sync_scratch():
    """scratch mode: a private copy of the Coq development (sources only newer than the copy are replaced, compiled files kept)"""
    if not SCRATCH: return
    os.makedirs(COQ, exist_ok=True)
    rc, out = sh(["rsync", "-a", "--update", "--exclude", "*.vo", "--exclude", "*.vok", "--exclude", "*.vos", "--exclude", "*.glob", "--exclude", ".*.aux",
                  "--exclude", "Makefile*", "--exclude", "model.ml*", "--exclude", "Generated/", os.path.join(SRC, "coq") + "/", COQ + "/"])
    if rc != 0: raise BuildError("rsync", out)
    os.makedirs(os.path.join(COQ, "Generated"), exist_ok=True)

def harness_dir(name):
    """the harness crate; in scratch mode a copy whose path dependencies point at the other checkout"""
    src = os.path.join(SRC, name)
    if REPO == "/repo": return src
    dst = os.path.join(CACHE, name + "_src"); os.makedirs(os.path.join(dst, "src"), exist_ok=True)
    for rel in ("Cargo.toml", "src/main.rs"):
        t = open(os.path.join(src, rel)).read()
        if rel == "Cargo.toml": t = t.replace("/repo/crates", REPO + "/crates")
        q = os.path.join(dst, rel)
        if not os.path.exists(q) or open(q).read() != t: open(q, "w").write(t)
    return dst

def gen_params():
    rc, out = sh([sys.executable, os.path.join(ROOT, "tools", "gen_params.py")], env=dict(ENV, VERIF_REPO=REPO, VERIF_COQ=COQ))
    if rc != 0: raise BuildError("gen_params", out)
    return json.loads(out.strip().splitlines()[-1])

def coq_make(targets):
    """make the given .vo targets (full build of their dependencies); returns the log."""
    if not os.path.exists(os.path.join(COQ, "Makefile")) or \
       os.path.getmtime(os.path.join(COQ, "Makefile")) < os.path.getmtime(os.path.join(COQ, "_CoqProject")):
        rc, out = sh("coq_makefile -f _CoqProject -o Makefile", cwd=COQ)
        if rc != 0: raise BuildError("coq_makefile", out)
    rc, out = sh(["timeout", "1500", "make", "-j16"] + targets, cwd=COQ, timeout=1600)
    if rc != 0:
        m = re.search(r'File "\./([^"]+)", line (\d+)', out)
        raise BuildError("coq", out, theorem=(m.group(1) + ":" + m.group(2)) if m else None)
    return out

def build_driver():
    coq_make(["Extract.vo"])
    d = os.path.join(CACHE, "driver"); os.makedirs(d, exist_ok=True)
    srcs = [os.path.join(COQ, "model.ml"), os.path.join(COQ, "model.mli"), os.path.join(ROOT, "driver", "main.ml")]
    h = hashlib.sha256()
    for s in srcs: h.update(open(s, "rb").read())
    stamp = os.path.join(d, "stamp")
    if os.path.exists(DRIVER) and os.path.exists(stamp) and open(stamp).read() == h.hexdigest():
        return
    for s in srcs: shutil.copy(s, d)
    rc, out = sh("ocamlfind ocamlopt -O2 -w -a model.mli model.ml main.ml -o model_driver", cwd=d)
    if rc != 0: raise BuildError("ocaml", out)
    open(stamp, "w").write(h.hexdigest())

def build_harness():
    h = harness_dir("harness")
    shutil.copy(os.path.join(REPO, "Cargo.lock"), os.path.join(h, "Cargo.lock"))
    rc, out = sh("cargo build --offline 2>&1", cwd=h, timeout=1700)
    if rc != 0:
        # a lock file from a changed tree may not resolve for the harness; retry letting cargo adjust it
        rc, out = sh("cargo build --offline 2>&1", cwd=h, timeout=1700)
    if rc != 0: raise BuildError("cargo-harness", out)

def build_pdf_harness():
    h = harness_dir("harness_pdf")
    shutil.copy(os.path.join(REPO, "Cargo.lock"), os.path.join(h, "Cargo.lock"))
    rc, out = sh("cargo build --offline 2>&1", cwd=h, timeout=1700)
    if rc != 0: raise BuildError("cargo-harness-pdf", out)

def build_cli():
    rc, out = sh("cargo build --offline -p cgt-cli 2>&1", cwd=REPO, timeout=1700)
    if rc != 0: raise BuildError("cargo-cli", out)

def build_all(coq_targets, need_cli=False, need_pdf=False):
    t0 = time.time()
    with Lock():
        sync_scratch()
        params = gen_params()
        build_driver()
        log = coq_make(coq_targets) if coq_targets else ""
        build_harness()
        if need_cli: build_cli()
        if need_pdf: build_pdf_harness()
    return {"params": params, "coq_log": log, "build_s": round(time.time() - t0, 1)}
