import json, os, time
from . import build
def write(pid, tier, seed, coverage, assumptions, wall_s, violations):
    path = os.path.join(build.OUT, "evidence", pid + ".json")
    os.makedirs(os.path.dirname(path), exist_ok=True)
    ev = {"property_id": pid, "tier": tier, "seed": seed, "level": "proof", "coverage": coverage,
          "assumptions": assumptions, "wall_s": round(wall_s, 1), "violations": violations}
    tmp = path + ".tmp"
    json.dump(ev, open(tmp, "w"), indent=1, default=str)
    os.replace(tmp, path)
    return path
