"""Known-finding input classes (Python side).  Each is a predicate over an abstract ledger.
The Gallina counterparts used as theorem hypotheses live in coq/Model/Known.v."""
from fractions import Fraction as F
from collections import defaultdict

def _sorted(lines):
    return sorted(lines, key=lambda l: l.date)   # stable, as the code sorts

def kf_nonadjacent_same_day_sells(lines):
    """Some (date, security) has two SELL lines that are not adjacent after the stable date sort,
    so the code keeps them as separate sales (separate legs, each at its own price)."""
    s = _sorted(lines)
    seen = {}
    for i, l in enumerate(s):
        if l.kind != "SELL": continue
        k = (l.date, l.tick.upper())
        if k in seen and seen[k] != i - 1: return True
        seen[k] = i
    return False

def kf_event_after_split(lines):
    """A CAPRETURN/ACCUMULATION of a security dated on or after a SPLIT/UNSPLIT of it (the cost
    pre-pass counts lots in acquisition-day units)."""
    first_split = {}
    for l in lines:
        if l.kind in ("SPLIT", "UNSPLIT"):
            t = l.tick.upper()
            if t not in first_split or l.date < first_split[t]: first_split[t] = l.date
    return any(l.kind in ("CAPRETURN", "ACCUMULATION") and l.tick.upper() in first_split and l.date >= first_split[l.tick.upper()] for l in lines)

def kf_same_day_mixed_events(lines):
    """Two or more CAPRETURN/ACCUMULATION lines of one security on one day."""
    c = defaultdict(int)
    for l in lines:
        if l.kind in ("CAPRETURN", "ACCUMULATION"): c[(l.date, l.tick.upper())] += 1
    return any(v > 1 for v in c.values())

def _is_2a5b(x):
    d = F(x).denominator
    for p in (2, 5):
        while d % p == 0: d //= p
    return d == 1

def kf_inexact_ratio_chain(lines):
    """Some split/unsplit ratio (or its inverse for UNSPLIT) is not a terminating decimal."""
    for l in lines:
        if l.kind == "UNSPLIT" and F(l.a) != 0 and not _is_2a5b(1 / F(l.a)): return True
        if l.kind == "SPLIT" and F(l.a) != 0 and not _is_2a5b(1 / F(l.a)): return True   # look-ahead divides by the ratio
    return False

def has_events(lines):
    return any(l.kind in ("CAPRETURN", "ACCUMULATION") for l in lines)

def has_splits(lines):
    return any(l.kind in ("SPLIT", "UNSPLIT") for l in lines)

CLASSES = {f.__name__: f for f in (kf_nonadjacent_same_day_sells, kf_event_after_split, kf_same_day_mixed_events, kf_inexact_ratio_chain)}
