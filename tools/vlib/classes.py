"""Known-finding input classes (Python side).  Each is a predicate over an abstract ledger.
The Gallina counterparts used as theorem hypotheses live in coq/Model/Known.v."""
from fractions import Fraction as F
from collections import defaultdict

def _sorted(lines):
    return sorted(lines, key=lambda l: l.date)   # stable, as the code sorts

def kf_nonadjacent_same_day_sells(lines):
    """Some (date, security) has two SELL lines that are not adjacent after the stable date sort,
    so the code keeps them as separate sales (separate legs, each at its own price)."""
    s = _sorted(lines)
    seen = {}
    for i, l in enumerate(s):
        if l.kind != "SELL": continue
        k = (l.date, l.tick.upper())
        if k in seen and seen[k] != i - 1: return True
        seen[k] = i
    return False

def kf_event_after_split(lines):
    """A CAPRETURN/ACCUMULATION of a security dated on or after a SPLIT/UNSPLIT of it (the cost
    pre-pass counts lots in acquisition-day units)."""
    first_split = {}
    for l in lines:
        if l.kind in ("SPLIT", "UNSPLIT"):
            t = l.tick.upper()
            if t not in first_split or l.date < first_split[t]: first_split[t] = l.date
    return any(l.kind in ("CAPRETURN", "ACCUMULATION") and l.tick.upper() in first_split and l.date >= first_split[l.tick.upper()] for l in lines)

def kf_same_day_mixed_events(lines):
    """Two or more CAPRETURN/ACCUMULATION lines of one security on one day."""
    c = defaultdict(int)
    for l in lines:
        if l.kind in ("CAPRETURN", "ACCUMULATION"): c[(l.date, l.tick.upper())] += 1
    return any(v > 1 for v in c.values())

def _is_2a5b(x):
    d = F(x).denominator
    for p in (2, 5):
        while d % p == 0: d //= p
    return d == 1

def _repr28(x):
    """x is exactly representable as a rust_decimal value (96-bit mantissa, scale <= 28)"""
    x = F(x)
    if not _is_2a5b(x): return False
    d = x.denominator; sc = 0
    while d != 1:
        sc += 1; d = (x * 10 ** sc).denominator
        if sc > 28: return False
    return abs(x.numerator * 10 ** sc // x.denominator) < 2 ** 96

def residue_site(lines, window=30):
    """Replays, in exact rationals, the share-count arithmetic of the pinned matcher (pool and holding rescaling at the
    end of a day, the look-ahead's cumulative ratio, availability / ratio, matched * ratio) and returns a description
    of the first operation whose exact result rust_decimal cannot represent - the place where a 28-digit residue
    enters - or None when every such operation is exact (then the code's share counts are the exact ones)."""
    for t in sorted({l.tick.upper() for l in lines}):
        ls = [l for l in _sorted(lines) if l.tick.upper() == t and l.kind in ("BUY", "SELL", "SPLIT", "UNSPLIT")]
        dates = sorted({l.date for l in ls})
        day = {d: [l for l in ls if l.date == d] for d in dates}
        B = {d: sum((F(l.a) for l in day[d] if l.kind == "BUY"), F(0)) for d in dates}
        S = {d: sum((F(l.a) for l in day[d] if l.kind == "SELL"), F(0)) for d in dates}
        hasbuy = {d: any(l.kind == "BUY" for l in day[d]) for d in dates}
        hassell = {d: any(l.kind == "SELL" for l in day[d]) for d in dates}
        def step(val, l, what):
            r = F(l.a)
            if l.kind == "SPLIT": nv = val * r
            elif r != 0: nv = val / r
            else: nv = val
            if not _repr28(nv): return nv, "%s %s: %s %s %s by %s is not a 28-digit decimal" % (t, l.date, what, l.kind, val, r)
            return nv, None
        pool = F(0); pos = F(0); claims = defaultdict(F)
        for i, d in enumerate(dates):
            resv = claims[d] if hasbuy[d] else F(0)
            if hasbuy[d] and B[d] < resv: break
            avail = B[d] - resv if hasbuy[d] else F(0)
            pos1 = pos + B[d]
            if hassell[d]:
                if pos1 < S[d] or avail + pool < S[d]: break
                m = min(S[d], avail) if (avail > 0 and S[d] > 0) else F(0)
                rem = S[d] - m; avail -= m
                if S[d] != 0:
                    R = F(1)
                    for l in day[d]:
                        if l.kind in ("SPLIT", "UNSPLIT"):
                            R, bad = step(R, l, "look-ahead ratio")
                            if bad: return bad
                    for e in dates[i + 1:]:
                        if rem <= 0 or (e - d).days > window: break
                        pend = F(1)
                        for l in day[e]:     # file order within the day; buys of a day were folded into one lot
                            if l.kind in ("SPLIT", "UNSPLIT"):
                                pend, bad = step(pend, l, "look-ahead day ratio")
                                if bad: return bad
                        if hasbuy[e]:
                            free = max(F(0), B[e] - min(B[e], max(F(0), S[e])) - claims[e])
                            if free > 0:
                                q = free / R if R != 0 else F(0)
                                if not _repr28(q): return "%s sale %s against %s: available %s / ratio %s is not a 28-digit decimal" % (t, d, e, free, R)
                                ms = min(rem, q); mb = ms * R
                                if not _repr28(mb): return "%s sale %s against %s: matched %s x ratio %s is not a 28-digit decimal" % (t, d, e, ms, R)
                                claims[e] += mb; rem -= ms
                        R = R * pend
                        if not _repr28(R): return "%s sale %s: cumulative ratio %s is not a 28-digit decimal" % (t, d, R)
                if rem > 0:
                    if rem > pool: break
                    pool -= rem
            if hasbuy[d] and avail > 0: pool += avail
            pos = pos1 - (S[d] if hassell[d] else F(0))
            for l in day[d]:
                if l.kind in ("SPLIT", "UNSPLIT"):
                    pool, bad = step(pool, l, "pool")
                    if bad: return bad
                    pos, bad = step(pos, l, "holding")
                    if bad: return bad
    return None

def kf_inexact_ratio_chain(lines):
    """Some share-count operation of the pinned matcher has an exact result that is not a 28-digit decimal
    (see residue_site): only then can a Decimal residue explain a difference."""
    return residue_site(lines) is not None

def has_events(lines):
    return any(l.kind in ("CAPRETURN", "ACCUMULATION") for l in lines)

def has_splits(lines):
    return any(l.kind in ("SPLIT", "UNSPLIT") for l in lines)

CLASSES = {f.__name__: f for f in (kf_nonadjacent_same_day_sells, kf_event_after_split, kf_same_day_mixed_events, kf_inexact_ratio_chain)}


# D11 (Decimal overflow panics): identified by the input, not by the panic text.  The 96-bit decimal overflows when an integer part
# passes 7.9e28; that takes a figure of ten or more integer digits, or a non-zero one below 1e-9 (as a divisor), somewhere in the
# input.  An overflow panic on an input whose every decimal literal lies within 1e-9 .. 1e9 is not this finding.
import re as _re
_DEC = _re.compile(rb"\d+(?:[.,]\d+)*")
def extreme_magnitudes(data):
    if isinstance(data, str): data = data.encode("utf-8", "replace")
    for m in _DEC.finditer(data):
        t = m.group(0).replace(b",", b"")
        ip, _, fp = t.partition(b".")
        if len(ip.lstrip(b"0")) >= 10: return True
        if not ip.strip(b"0") and fp.strip(b"0") and len(fp) - len(fp.lstrip(b"0")) >= 9: return True
    return False
