"""Shared machinery of every ./check Cxx run."""
import os, sys, json, time, random, collections
from . import build, coqaudit, evidence

class Ctx:
    def __init__(self, pid, tier, seed):
        self.pid, self.tier, self.seed = pid, tier, seed
        self.rng = random.Random(seed * 1000003 + sum(map(ord, pid)))
        self.t0 = time.time()
        self.evaluations = 0
        self.nontrivial = set()
        self.samples = []
        self.hist = collections.defaultdict(collections.Counter)
        self.violations = []        # (kind, description, replay dict)
        self.known_printed = []
        self.disagreements_checked = 0
        self.traces = 0
        self.notes = []
        self.broken = None          # (theorem or file, detail)
        self.obligations = 0; self.discharged = 0; self.axioms = {}
    def thorough(self): return self.tier == "thorough"
    def n(self, quick, thorough): return thorough if self.thorough() else quick
    def count(self, key, value): self.hist[key][str(value)] += 1
    def sample(self, s, limit=4):
        if len(self.samples) < limit: self.samples.append(s)
    def elapsed(self): return time.time() - self.t0

    def known(self, what):
        line = "KNOWN-FINDING: property=%s %s" % (self.pid, what)
        if line not in self.known_printed:
            self.known_printed.append(line); print(line, flush=True)

    MAXV = 3
    def violation(self, what, replay, found_input=True):
        n = len(self.violations)
        if n >= self.MAXV:
            self.suppressed = getattr(self, "suppressed", 0) + 1
            return
        d = os.path.join(build.OUT, "replays"); os.makedirs(d, exist_ok=True)
        path = os.path.join(d, "%s-%d-%d.json" % (self.pid, self.seed, n))
        replay = dict(replay); replay["property"] = self.pid; replay["what"] = what; replay["seed"] = self.seed
        replay["failing_input_found"] = found_input
        replay["replay_cmd"] = "./check %s --replay %s" % (self.pid, path)
        json.dump(replay, open(path, "w"), indent=1, default=str)
        self.violations.append((what, path, found_input))
        print("VIOLATION property=%s replay=%s%s" % (self.pid, path, "" if found_input else " no-failing-input-found"), flush=True)
        print("  " + what[:400], flush=True)

def load_known():
    p = os.path.join(build.ROOT, "known_findings.json")
    if not os.path.exists(p): return []
    return json.load(open(p))["findings"]

TRUSTED = [
    "Coq 8.16.1 kernel (coqc), vm_compute in Examples/witnesses; no native_compute",
    "axioms: none expected; any axiom reported by Print Assumptions must be listed in coq/axioms.allow",
    "extraction to OCaml with ExtrOcamlBasic only (bool, option, unit, list, prod, sumbool, sumor); no Extract Constant; OCaml 4.13.1",
    "driver/main.ml (case parsing, decimal<->Z, JSON printing) - hand-written glue",
    "correspondence check K: tools/vlib generators, harness crate (path deps on /repo/crates/*), canonicalisation, 1e-9 tolerance on money",
    "modelled, not verified: rust_decimal rounding/overflow, chrono, pest, serde, HashMap iteration order",
]

def audit(ctx, vfile, module):
    """Build result bookkeeping for the property's theorem file."""
    names = coqaudit.theorems_of(vfile)
    ctx.obligations = len(names)
    hits = coqaudit.scan_forbidden()
    if hits:
        ctx.broken = ("forbidden token", "; ".join("%s:%d %s" % h for h in hits[:5])); return names
    try:
        ax = coqaudit.print_assumptions(module, names)
    except build.BuildError as e:
        ctx.broken = (vfile, e.detail[-1500:]); return names
    allow = coqaudit.allowlist()
    bad = {n: [a for a in v if a not in allow] for n, v in ax.items()}
    bad = {n: v for n, v in bad.items() if v}
    ctx.axioms = ax
    ctx.discharged = len([n for n in names if n in ax and n not in bad])
    if bad:
        ctx.broken = ("unlisted axiom", json.dumps(bad))
    if ctx.thorough() and ctx.broken is None:
        ok, summ, tail = coqaudit.coqchk(module)
        ctx.coqchk = summ
        allow_ax = summ.get("axioms") == "<none>" or all(a.strip() in allow for a in summ.get("axioms", "").split())
        if not ok and not (allow_ax and all(summ[k] == "<none>" for k in ("type_in_type", "unsafe_fix", "positivity_assumed"))):
            ctx.broken = ("coqchk", json.dumps(summ) + " :: " + tail[-300:])
    return names

def finish(ctx, spec, binfo):
    wall = ctx.elapsed()
    cov = {
        "obligations": max(ctx.obligations, 1), "discharged": ctx.discharged if ctx.broken is None else min(ctx.discharged, max(ctx.obligations - 1, 0)),
        "checker_cmd": "make -C coq -j16 %s && coqc Print Assumptions audit (tools/vlib/coqaudit.py)" % spec["target"],
        "trusted_base": TRUSTED + spec.get("trusted_extra", []),
        "theorems": {n: ("closed under the global context" if not a else a) for n, a in ctx.axioms.items()},
        "coqchk": getattr(ctx, "coqchk", "not run in this tier (thorough tier re-checks the compiled theory with coqchk -o)"),
        "evaluations": ctx.evaluations, "distinct_nontrivial": len(ctx.nontrivial),
        "rule": spec.get("rule", ""), "samples": ctx.samples or ["(none)"],
        "traces_validated_against_impl": ctx.traces, "disagreements_checked": ctx.disagreements_checked,
        "input_distribution": {k: dict(v) for k, v in ctx.hist.items()},
        "known_findings_printed": ctx.known_printed, "notes": ctx.notes,
        "params_from_source": binfo.get("params") if binfo else None,
        "build_s": binfo.get("build_s") if binfo else None,
        "explanation": spec.get("explanation", ""),
        "not_proved": spec.get("not_proved", ""),
    }
    evidence.write(ctx.pid, ctx.tier, ctx.seed, cov, spec.get("assumptions", []), wall, len(ctx.violations))
    return 1 if ctx.violations else 0
