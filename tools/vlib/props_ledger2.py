"""Property checks C05-C07, C09-C12: invariance oracles on the code alone plus K."""
import datetime, itertools, math
from fractions import Fraction as F
from collections import defaultdict
from . import ledgerk as K, compare, ledger, gen, classes
from .ledger import Line
from .props_ledger import run_k, gen_cases, case_diffs, TOLQ, TOLM

# ---------- generic: compare two code reports ----------
def rep_diffs(a, b, strict_shape=True, what=("legs", "cost", "gain", "proceeds", "holdings", "totals", "years")):
    """a, b canonical code reports.  strict_shape compares the raw leg lists, else the merged ones."""
    if strict_shape:
        a = {"years": [dict(y, disposals=[dict(d, legs=d["legs_raw"]) for d in y["disposals"]]) for y in a["years"]], "holdings": a["holdings"]}
        b = {"years": [dict(y, disposals=[dict(d, legs=d["legs_raw"]) for d in y["disposals"]]) for y in b["years"]], "holdings": b["holdings"]}
    return compare.compare_reports(a, b, what=what)

def money_diffs(a, b, shape_class, what=("cost", "gain", "proceeds", "totals", "years")):
    """differences in money figures between two canonical code reports, legs merged; when a ledger of the pair has
    non-adjacent same-day SELL lines (known finding D2b) per-leg gains are replaced by per-disposal gains"""
    w = tuple(x for x in what if not (shape_class and x == "gain"))
    d = rep_diffs(a, b, strict_shape=False, what=w)
    if not d:
        for ya, yb in zip(a["years"], b["years"]):
            for da, db in zip(ya["disposals"], yb["disposals"]):
                ga = sum(l["gain"] for l in da["legs_raw"]); gb = sum(l["gain"] for l in db["legs_raw"])
                if not compare.near(ga, gb): d.append(("gain", ((da["date"], da["tick"]), "disposal gain", float(ga)), float(gb)))
    return d

def outcome(rr):
    if rr.get("ok"): return ("ok",)
    if rr.get("stage") == "panic": return ("panic",)
    c = compare.classify_error(rr.get("error", ""))
    return ("err", c[0], c[1], c[2], c[3] if c[0] in ("NoExemption", "MissingFx") else None)

class Variants:
    """Runs a base ledger and named variants through the code and hands the canonical reports to a judge."""
    def __init__(self, ctx, pid_label):
        self.ctx = ctx; self.label = pid_label
    def run(self, groups, judge, year=None):
        """groups: {gid: {"base": lines, "vars": {name: lines}, "meta": any}}; judge(gid, base_rr, {name: rr}, group) -> list of (obs, detail, known_class|None)"""
        flat = {}
        for gid, g in groups.items():
            flat[gid + "#base"] = g["base"]
            for n, ls in g["vars"].items(): flat[gid + "#" + n] = ls
        rr = K.code_only(flat, year=year); rr_all = rr; pending = []
        for gid, g in groups.items():
            self.ctx.evaluations += 1 + len(g["vars"])
            base = rr[gid + "#base"]; vs = {n: rr[gid + "#" + n] for n in g["vars"]}
            cr = compare.canon_rust(base["report"]) if base.get("ok") else None
            nt = K.stats(self.ctx, g["base"], cr)
            self.ctx.count("outcome", outcome(base)[0] if outcome(base)[0] != "err" else "error:" + outcome(base)[1])
            self.ctx.count("variants_per_case", len(g["vars"]))
            if nt and g["vars"]: self.ctx.nontrivial.add(K.signature(g["base"]))
            self.ctx.sample({"id": gid, "dsl": ledger.render(g["base"]), "variants": {n: ledger.render(v) for n, v in list(g["vars"].items())[:2]}})
            fails = judge(gid, base, vs, g)
            for obs, detail, known in fails:
                self.ctx.disagreements_checked += 1
                if known and known.split(":")[0] in MODELLED_CLASSES:
                    pending.append((gid, obs, detail, known)); continue
                if known:
                    self.ctx.known(known)
                    self.ctx.count("known_finding_hits", known.split(":")[0])
                else:
                    self.report(gid, g, obs, detail, base, vs)
                    break
        # A finding whose behaviour the model reproduces (it is what the model's theorems are proved about) excuses a failure
        # only where the code still does exactly what the model does on every ledger of the group; otherwise something else is wrong.
        if pending:
            chk = {}
            for gid, obs, detail, known in pending:
                g = groups[gid]
                chk[gid + "#base"] = g["base"]
                for n, ls in g["vars"].items(): chk[gid + "#" + n] = ls
            m, r = K.both(chk, year=year)
            seen = set()
            for gid, obs, detail, known in pending:
                g = groups[gid]; bad = None
                for cid in [gid + "#base"] + [gid + "#" + n for n in g["vars"]]:
                    lines = chk[cid]; rr = r[cid]
                    if rr.get("stage") == "panic" or classes.residue_site(lines) is not None: continue     # other listed findings decide there
                    d, _ = case_diffs(lines, m[cid], rr, ("accept", "error", "legs", "cost", "proceeds", "holdings", "years"))
                    if d: bad = (cid, d[0]); break
                if bad is None:
                    self.ctx.known(known); self.ctx.count("known_finding_hits", known.split(":")[0])
                elif gid not in seen:
                    seen.add(gid)
                    self.report(gid, g, obs, "%s [ledger is in class %s, but the code no longer matches the model of that finding: %s %s]" % (detail, known.split(":")[0], bad[0], bad[1]),
                                rr_all[gid + "#base"], {n: rr_all[gid + "#" + n] for n in g["vars"]})

    def report(self, gid, g, obs, detail, base, vs):
        self.ctx.violation("%s: %s" % (obs, detail), {"input_dsl": ledger.render(g["base"]), "variants": {n: ledger.render(v) for n, v in g["vars"].items()},
                           "observable": obs, "detail": str(detail), "case_id": gid, "code_base": base, "code_variants": vs}, found_input=True)

MODELLED_CLASSES = ("kf_event_after_split", "kf_lot_cost_below_share", "kf_same_day_mixed_events")

def load_known_text(pid, cls):
    for f in __import__("vlib.framework", fromlist=["x"]).load_known():
        if f.get("status") == "known" and pid in f["properties"] and f["class"] == cls:
            return "%s: %s" % (cls, f["what_fails"])
    return None

# ---------- C05 ----------
def uncovered_sales(lines):
    """[(date_ordinal, tick)] of sale days at which cumulative acquisitions (rescaled) do not cover cumulative sales"""
    out = []
    for t in K.ticks_of(lines):
        days = K.per_day(lines, t)
        pos = F(0)
        for z in sorted(days):
            x = days[z]
            pos = pos + x["b"] - x["s"]
            if x["hassell"] and pos < 0: out.append((z, t)); pos = pos  # keep going: later days judged on the same arithmetic
            pos = pos * x["ratio"]
    return sorted(out)

def gen_c05(ctx, n):
    cases = {}
    rng = ctx.rng
    for i in range(n):
        base = gen.family(rng, rng.choice(["noevents", "splits", "competition", "plain"]))
        r = rng.random()
        ls = list(base)
        if r < 0.2 and len(ls) > 2:          # truncated export: drop an early purchase
            srt = sorted(ls, key=lambda l: l.date)
            buys = [l for l in srt[:max(1, len(srt) // 2)] if l.kind == "BUY"]
            if buys: ls.remove(rng.choice(buys)); kind = "truncated"
            else: kind = "asis"
        elif r < 0.4:                         # duplicated sale row
            sells = [l for l in ls if l.kind == "SELL"]
            if sells: ls.append(rng.choice(sells).copy()); kind = "dup-sell"
            else: kind = "asis"
        elif r < 0.55:                        # companion sale matched forward, then sell the same shares again
            t = "AAA"; d0 = gen.start_date(rng)
            q = rng.choice(["100", "50", "12.5"])
            ls = [Line(d0, t, "BUY", q, "1", "GBP", None),
                  Line(d0 + datetime.timedelta(days=40), t, "SELL", q, "2", "GBP", None),
                  Line(d0 + datetime.timedelta(days=40 + rng.choice([0, 1, 5])), t, "SELL", rng.choice([q, "1"]), "2", "GBP", None),
                  Line(d0 + datetime.timedelta(days=40 + rng.choice([6, 20, 30])), t, "BUY", q, "3", "GBP", None)]
            kind = "forward-companion"
        elif r < 0.62:                        # overlapping export chunks: the same sale row twice, another security's row between, repurchase later
            t = "AAA"; d0 = gen.start_date(rng); q = rng.choice(["100", "40", "2.5"])
            dsell = d0 + datetime.timedelta(days=rng.choice([35, 60]))
            held = rng.choice([q, q, gen.dec_str(F(q) * 2), gen.dec_str(F(q) * F(3, 2))])
            ls = [Line(d0, t, "BUY", held, "1", "GBP", None), Line(dsell, t, "SELL", q, "2", "GBP", None),
                  Line(dsell, "BBB", rng.choice(["BUY", "DIVIDEND"]), "1" , "1", "GBP", None) if False else Line(dsell, "BBB", "BUY", "1", "1", "GBP", None),
                  Line(dsell, t, "SELL", q, "2", "GBP", None),
                  Line(dsell + datetime.timedelta(days=rng.choice([1, 10, 30, 31])), t, "BUY", rng.choice([q, gen.dec_str(F(q) * 3)]), "3", "GBP", None)]
            kind = "dup-nonadjacent"
        elif r < 0.74:                        # oversell that only appears after an unsplit / covered only thanks to a split
            t = "AAA"; d0 = gen.start_date(rng); k = rng.choice(["SPLIT", "UNSPLIT"]); ra = rng.choice(["2", "4", "5"])
            held = F(100) * (F(ra) if k == "SPLIT" else 1 / F(ra))
            sell = held + rng.choice([F(0), F(0), F(1), -F(1), F(1, 2)])
            ls = [Line(d0, t, "BUY", "100", "1", "GBP", None), Line(d0 + datetime.timedelta(days=rng.choice([0, 3, 50])), t, k, ra),
                  Line(d0 + datetime.timedelta(days=60), t, "SELL", gen.dec_str(sell), "2", "GBP", None)]
            if rng.random() < 0.5: ls.append(Line(d0 + datetime.timedelta(days=70), t, "BUY", "500", "1", "GBP", None))
            kind = "split-edge"
        elif r < 0.84:                        # a sale matched forward across a split/consolidation, and a further sale before the split
            t = "AAA"; d0 = gen.start_date(rng); k = rng.choice(["SPLIT", "UNSPLIT"]); ra = rng.choice(["2", "4", "5", "10"])
            h = F(rng.choice([100, 200, 40])); a = h * rng.choice([F(1, 2), F(1), F(1, 4)])
            left = h - a
            b = rng.choice([left, left + 1, left / 2, F(1), left + a]) if left > 0 else rng.choice([F(1), a])
            d1 = d0 + datetime.timedelta(days=rng.choice([35, 90]))
            d2 = d1 + datetime.timedelta(days=rng.choice([0, 1, 2, 5]))
            ds = d2 + datetime.timedelta(days=rng.choice([0, 1, 5]))
            de = ds + datetime.timedelta(days=rng.choice([0, 1, 10, 15]))
            c = a * (F(ra) if k == "SPLIT" else 1 / F(ra)) * rng.choice([F(1), F(2), F(1, 2)])
            ls = [Line(d0, t, "BUY", gen.dec_str(h), "1", "GBP", None), Line(d1, t, "SELL", gen.dec_str(a), "2", "GBP", None),
                  Line(d2, t, "SELL", gen.dec_str(b), "2", "GBP", None), Line(ds, t, k, ra), Line(de, t, "BUY", gen.dec_str(c), "3", "GBP", None)]
            if rng.random() < 0.3: ls.append(Line(de + datetime.timedelta(days=rng.choice([1, 20])), t, "SELL", gen.dec_str(c), "2", "GBP", None))
            kind = "forward-across-split"
        else: kind = "asis"
        if kind == "asis" and rng.random() < 0.08: ls = gen.gen_awkward_exact(rng); kind = "awkward-exact"
        cases["h%d:%s" % (i, kind)] = ls
        ctx.count("c05_history_kind", kind)
    return cases

def k_c05(ctx):
    what = ("accept", "error")
    def oracle_cases(cases):
        m, r = K.both(cases)
        for cid, lines in cases.items():
            ctx.evaluations += 1; ctx.traces += 1
            mm, rr = m[cid], r[cid]
            if rr.get("stage") == "parse": ctx.notes.append("generated ledger did not parse: " + cid); continue
            unc = uncovered_sales(lines)
            cls = compare.classify_error(rr.get("error", "")) if not rr.get("ok") else None
            ctx.count("covered", not unc); ctx.count("code_outcome", "ok" if rr.get("ok") else (rr.get("stage") if rr.get("stage") == "panic" else cls[0]))
            if unc or (rr.get("ok") and any(len(d["legs"]) > 1 for y in rr["report"]["years"] for d in y["disposals"])): ctx.nontrivial.add(K.signature(lines))
            ctx.sample({"id": cid, "dsl": ledger.render(lines), "covered": not unc, "code_ok": rr.get("ok")})
            bad = None
            if cls and cls[0] == "CapExceeds": continue            # another obstacle (C11's business)
            if cls and cls[0] == "NoExemption": continue
            if cls and cls[0] == "ZeroRatio": continue             # an invalid split ratio is refused for its own reason (fix 45ca768)
            if not rr.get("ok") and rr.get("stage") != "panic" and "overflow" in rr.get("error", "").lower() and classes.extreme_magnitudes(ledger.render(lines)):
                ctx.count("refused_for_numeric_range", 1); continue  # figures beyond the decimal type's range, refused with a message: another obstacle
            if not unc and not rr.get("ok"):
                bad = ("covered_refused", "every sale is covered but the code refuses: %s" % rr.get("error", "")[:200])
            elif unc and rr.get("ok"):
                bad = ("uncovered_accepted", "sale %s on %s is not covered by shares held but a report is produced" % (unc[0][1], compare.iso_of_ordinal(unc[0][0])))
            elif unc and not rr.get("ok"):
                first = unc[0][0]
                names = {(t, compare.iso_of_ordinal(z)) for z, t in unc if z == first}
                if cls[0] not in ("ExceedsHolding", "NoPrior", "Unmatched", "Refusal") or (cls[1], cls[2]) not in names:
                    bad = ("error_names_sale", "first uncovered sale is %s but the error says: %s" % (sorted(names), rr.get("error", "")[:200]))
            # model agreement on accept/reject (K)
            kd = [d for d in compare.compare_outcome(mm, rr) if d[0] in what]
            if bad is None and kd and not (mm["ok"] and cls and cls[0] in ("CapExceeds",)):
                bad = ("K.accept", "model and code disagree: %s" % (kd[0][1:],))
            if bad is None: continue
            ctx.disagreements_checked += 1
            if rr.get("stage") == "panic" and "overflow" in rr.get("error", "").lower() and classes.extreme_magnitudes(ledger.render(lines)):
                kt = load_known_text("C05", "kf_decimal_overflow")
                if kt: ctx.known(kt); continue
            if bad[0] == "covered_refused" and classes.kf_inexact_ratio_chain(lines):
                kt = load_known_text("C05", "kf_inexact_ratio_chain")
                if kt: ctx.known(kt); continue
            def still(cands):
                cs = {"s%d" % i: c for i, c in enumerate(cands)}
                rr2 = K.code_only(cs)
                res = []
                for i, c in enumerate(cands):
                    u = uncovered_sales(c); x = rr2["s%d" % i]
                    c2 = compare.classify_error(x.get("error", "")) if not x.get("ok") else None
                    res.append((bad[0] == "covered_refused" and not u and not x.get("ok") and x.get("stage") == "calculate" and c2[0] not in ("CapExceeds", "NoExemption")) or
                               (bad[0] == "uncovered_accepted" and bool(u) and x.get("ok")))
                return res
            small = K.shrink(lines, still) if bad[0] in ("covered_refused", "uncovered_accepted") else lines
            ctx.violation("%s: %s" % bad, {"input_dsl": ledger.render(lines), "shrunk_dsl": ledger.render(small), "observable": bad[0],
                          "model": mm, "code": rr, "uncovered": [(t, compare.iso_of_ordinal(z)) for z, t in unc], "case_id": cid}, found_input=True)
    corpus = K.corpus_ledgers()
    oracle_cases(corpus)
    oracle_cases(gen_c05(ctx, ctx.n(4000, 60000)))

# ---------- C06 ----------
def split_fills(rng, l):
    """one BUY/SELL as 2-3 same-day fills with the same total quantity, consideration and fees"""
    q = F(l.a); p = F(l.v); f = F(l.x) if l.x is not None else None
    k = rng.choice([2, 3])
    parts = [F(1, 2), F(1, 2)] if k == 2 else [F(1, 2), F(1, 4), F(1, 4)]
    if rng.random() < 0.5: parts = [F(1, 5), F(4, 5)] if k == 2 else [F(1, 5), F(2, 5), F(2, 5)]
    qs = [q * x for x in parts]
    # prices: p + delta_i with sum q_i*delta_i = 0
    if k == 2:
        d = F(rng.choice([0, 1, 5]), 100); ps = [p + d * qs[1] / qs[0] if False else p + d * parts[1] * 4, p - d * parts[0] * 4]
    else:
        d = F(rng.choice([0, 1, 2]), 100); ps = [p + d * 4 * (parts[1] + parts[2]), p - d * 4 * parts[0], p - d * 4 * parts[0]]
    if any(x < 0 for x in ps): ps = [p] * k
    fs = [None] * k
    if f is not None:
        fs = [f * x for x in parts]
    out = []
    for qi, pi, fi in zip(qs, ps, fs):
        out.append(l.copy(a=gen.dec_str(qi), v=gen.dec_str(pi), x=(gen.dec_str(fi) if fi is not None else None)))
    assert sum(F(o.a) for o in out) == q and sum(F(o.a) * F(o.v) for o in out) == q * p
    return out

def judge_invariance(pid, strict_known_class=None):
    def judge(gid, base, vs, g):
        fails = []
        lines_all = [g["base"]] + list(g["vars"].values())
        in_shape_class = any(classes.kf_nonadjacent_same_day_sells(x) for x in lines_all)
        in_event_class = any(classes.kf_same_day_mixed_events(x) for x in lines_all)
        ob = outcome(base)
        for n, rr in vs.items():
            ov = outcome(rr)
            # the property speaks of accepted ledgers: a ledger refused in both orders satisfies it whichever obstacle is named
            # (two obstacles of different securities on one date are reported in line order)
            if ob[0] != ov[0]:
                known = None
                if in_event_class: known = load_known_text(pid, "kf_same_day_mixed_events")
                if classes.kf_inexact_ratio_chain(g["base"]) or classes.kf_inexact_ratio_chain(g["vars"][n]): known = known or load_known_text(pid, "kf_inexact_ratio_chain")     # the residue site depends on the order of a day's SPLIT / UNSPLIT lines
                fails.append(("outcome", "%s: base %s vs variant %s" % (n, ob, ov), known)); continue
            if ob[0] != "ok": continue
            a = compare.canon_rust(base["report"]); b = compare.canon_rust(rr["report"])
            d = rep_diffs(a, b, strict_shape=True)
            if not d: continue
            dm = rep_diffs(a, b, strict_shape=False, what=("legs", "cost", "proceeds", "holdings", "totals", "years"))
            dg = []
            for ya, yb in zip(a["years"], b["years"]):
                for da, db in zip(ya["disposals"], yb["disposals"]):
                    if not compare.near(sum(l["gain"] for l in da["legs_raw"]), sum(l["gain"] for l in db["legs_raw"])): dg.append("gain")
            known = None
            if not dm and not dg and in_shape_class: known = load_known_text(pid, "kf_nonadjacent_same_day_sells")
            if in_event_class and known is None: known = load_known_text(pid, "kf_same_day_mixed_events")
            fails.append((d[0][0], "%s: %s" % (n, d[0][1:]), known))
        return fails
    return judge

def k_c06(ctx):
    V = Variants(ctx, "C06")
    rng = ctx.rng
    groups = {}
    srcs = list(K.corpus_ledgers().items())
    for i in range(ctx.n(800, 10000)):
        srcs.append(("g%d" % i, gen.family(rng, rng.choice(["mixed", "noevents", "competition", "splits", "events"]))))
    for gid, base in srcs:
        vs = {}
        n = len(base)
        if n <= 1: continue
        if n <= (5 if ctx.thorough() else 4):
            for j, perm in enumerate(itertools.permutations(range(n))):
                if j == 0: continue
                vs["perm%d" % j] = [base[k] for k in perm]
            ctx.count("perm_mode", "all")
        else:
            for j in range(ctx.n(3, 8)):
                p = list(base); rng.shuffle(p); vs["perm%d" % j] = p
            vs["reversed"] = list(reversed(base)); vs["sorted"] = sorted(base, key=lambda l: (l.date, l.tick, l.kind))
            ctx.count("perm_mode", "sampled")
        trades = [l for l in base if l.kind in ("BUY", "SELL")]
        for j in range(2):
            if not trades: break
            t = rng.choice(trades)
            try: fl = split_fills(rng, t)
            except AssertionError: continue
            idx = base.index(t); v = base[:idx] + base[idx + 1:]
            for f in fl: v.insert(rng.randint(0, len(v)), f)
            vs["fills%d" % j] = v
        # file split: the CLI joins files with "\n"; here: blank lines and a comment between the parts
        groups[gid] = {"base": base, "vars": vs}
    V.run(groups, judge_invariance("C06"))
    # file concatenation through the parser: parts joined by "\n" parse to the concatenation of the parts
    from . import run
    cases = []
    for gid, base in srcs[:ctx.n(150, 2000)]:
        if len(base) < 2: continue
        k = rng.randint(1, len(base) - 1); perm = list(base); rng.shuffle(perm)
        a, b = perm[:k], perm[k:]
        ta = ledger.render(a); tb = ledger.render(b)
        if rng.random() < 0.5: ta = ta.rstrip("\n")     # missing final newline in the first file
        cases.append({"id": gid + "#files", "op": "report", "dsl": ta + "\n" + tb})
        cases.append({"id": gid + "#whole", "op": "report", "dsl": ledger.render(perm)})
    rr = run.run_harness(cases)
    for c in cases[::2]:
        gid = c["id"][:-6]; x = rr[gid + "#files"]; y = rr[gid + "#whole"]
        ctx.evaluations += 2
        if outcome(x) != outcome(y) or (x.get("ok") and rep_diffs(compare.canon_rust(x["report"]), compare.canon_rust(y["report"]))):
            ctx.violation("file split changes the report", {"files_joined": c["dsl"], "case_id": gid, "code_files": x, "code_whole": y}, found_input=True)

    files_through_cli(ctx, srcs)

def files_through_cli(ctx, srcs):
    """The real thing: `cgt-tool report a.cgt b.cgt [c.cgt]` and `cgt-tool parse ...` against the same lines in one file, with every
    way a file can end (no final newline, LF, CRLF, a lone CR, a comment without newline, blank lines) and an empty file among them."""
    import subprocess, shutil, os
    from . import build
    rng = ctx.rng
    root = os.path.join(build.CACHE, "run", "c06-%d" % os.getpid()); shutil.rmtree(root, ignore_errors=True); os.makedirs(root)
    def cli(args, wd):
        p = subprocess.run([build.CLI] + args, cwd=wd, stdout=subprocess.PIPE, stderr=subprocess.PIPE, env=dict(build.ENV, HOME=wd), timeout=120)
        return p.returncode, p.stdout, p.stderr
    ENDS = ["", "\n", "\r\n", "\r", "\n\n", "\n# trailing comment", "  # trailing comment\n", "\n   \n"]
    try:
        n = 0
        for gid, base in srcs[:ctx.n(60, 900)]:
            if len(base) < 2: continue
            perm = list(base); rng.shuffle(perm)
            k = rng.choice([2, 2, 3]); cuts = sorted(rng.sample(range(1, len(perm)), min(k - 1, len(perm) - 1)))
            parts = [perm[i:j] for i, j in zip([0] + cuts, cuts + [len(perm)])]
            # a purchase recorded as two identical fills, one in each of two files (statements of two accounts, two export chunks):
            # identical lines are separate transactions wherever they stand
            buys = [(pi, l) for pi, part in enumerate(parts) for l in part if l.kind == "BUY"]
            if buys and rng.random() < 0.5:
                pi, l = rng.choice(buys); other = rng.choice([q for q in range(len(parts)) if q != pi])
                parts[other].insert(rng.randint(0, len(parts[other])), l)
                perm = [x for part in parts for x in part]
                ctx.count("cli_file_split_identical_fill_across_files", 1)
            if rng.random() < 0.2: parts.insert(rng.randint(0, len(parts)), [])        # an empty file
            wd = os.path.join(root, "f%d" % n); os.makedirs(wd); n += 1
            names = []; ends = []
            for i, part in enumerate(parts):
                body = "\n".join(ledger.render_line(l) for l in part); end = rng.choice(ENDS) if part else rng.choice(["", "\n"])
                open(os.path.join(wd, "p%d.cgt" % i), "w", newline="").write(body + end); names.append("p%d.cgt" % i); ends.append(end)
            open(os.path.join(wd, "whole.cgt"), "w", newline="").write(ledger.render(perm))
            for cmd in (["report", "--format", "json"], ["parse"]):
                a = cli([cmd[0]] + names + cmd[1:], wd); b = cli([cmd[0], "whole.cgt"] + cmd[1:], wd)
                ctx.evaluations += 2; ctx.count("cli_file_split_" + cmd[0], "ok" if b[0] == 0 else "refused")
                for e in ends: ctx.count("file_ending", repr(e))
                same = (a[0] == b[0]) and (a[1] == b[1] if b[0] == 0 else True)
                if not same:
                    ctx.violation("`cgt-tool %s` over %d files differs from the same lines in one file (exit %s vs %s)" % (cmd[0], len(names), a[0], b[0]),
                                  {"files": {nm: open(os.path.join(wd, nm), newline="").read() for nm in names}, "whole": ledger.render(perm), "command": cmd,
                                   "stderr_files": a[2][-300:].decode("utf-8", "replace"), "stdout_files": a[1][-400:].decode("utf-8", "replace"), "stdout_whole": b[1][-400:].decode("utf-8", "replace")}, found_input=True)
                    break
    finally:
        shutil.rmtree(root, ignore_errors=True)

# ---------- C07 ----------
def k_c07(ctx):
    from . import run
    # (1) exhaustive calendar: model vs chrono for every day number 1899-01-01 .. 2101-12-31
    lo = datetime.date(1899, 1, 1).toordinal(); hi = datetime.date(2101, 12, 31).toordinal()
    out = run.run_model_raw(["RUN dates %d %d" % (lo, hi)])
    mrows = {}
    for l in out.splitlines():
        t = l.split()
        mrows[int(t[0])] = (int(t[1]), int(t[2]), int(t[3]), t[4] == "true", int(t[5]), None if t[6] == "-" else int(t[6]))
    step = 5000; hc = [{"id": "d%d" % a, "op": "dates", "lo": a, "hi": min(hi, a + step - 1)} for a in range(lo, hi + 1, step)]
    hr = run.run_harness(hc)
    nbad = 0
    for c in hc:
        for row in hr[c["id"]]["dates"]:
            n = row[0]; m = mrows[n]
            ctx.evaluations += 1
            exp_ty = K.tax_year(datetime.date.fromordinal(n)); exp_ty = exp_ty if 1900 <= exp_ty <= 2100 else None
            ok = (m[0], m[1], m[2]) == (row[1], row[2], row[3]) and m[3] and m[4] == n and m[5] == row[4]
            if row[4] != exp_ty and nbad < 3:
                nbad += 1
                ctx.violation("TaxPeriod::from_date(%s) = %s but 6 April..5 April gives %s" % (datetime.date.fromordinal(n), row[4], exp_ty),
                              {"date": str(datetime.date.fromordinal(n)), "code_tax_year": row[4], "expected": exp_ty}, found_input=True)
            elif not ok and nbad < 3:
                nbad += 1
                ctx.violation("correspondence K.C07.calendar broken at day %d: model %s, chrono %s" % (n, m, row), {"day": n, "model": m, "code": row,
                              "correspondence": "K.C07.calendar"}, found_input=False)
    ctx.count("calendar_days_compared", hi - lo + 1); ctx.notes.append("calendar sweep 1899-01-01..2101-12-31 exhaustive: %d days" % (hi - lo + 1))
    ctx.nontrivial.add(("calendar", lo, hi))
    # (2) ledgers with disposals around 5/6 April x every year filter
    rng = ctx.rng
    cases = dict(K.corpus_ledgers())
    for i in range(ctx.n(250, 6000)):
        ls = gen.family(rng, rng.choice(["mixed", "noevents"]))
        if rng.random() < 0.6:      # force a sale on 5 or 6 April of some year, with a purchase earlier
            y = rng.randint(2015, 2025); d = datetime.date(y, 4, rng.choice([5, 6])); t = ls[0].tick if ls else "AAA"
            ls = ls + [Line(datetime.date(2014, 6, 1), t, "BUY", "1000", "1", "GBP", None), Line(d, t, "SELL", rng.choice(["1", "10"]), "2", "GBP", None)]
        cases["y%d" % i] = ls
    allr = K.code_only(cases)
    m_all, _ = K.both({k: v for k, v in list(cases.items())[:ctx.n(120, 2000)]}, want_model=True)
    ex = K.exemptions()
    filt = {}
    for cid, ls in cases.items():
        ys = sorted({K.tax_year(l.date) for l in ls}); ys = ys + [ys[0] - 1, ys[-1] + 1] if ys else []
        for y in ys: filt[(cid, y)] = ls
    # run per year (the year is a per-batch parameter of K.both, so group by year)
    by_year = defaultdict(dict)
    for (cid, y), ls in filt.items(): by_year[y][cid] = ls
    for y, cs in sorted(by_year.items()):
        mf, rf = K.both(cs, year=y)
        for cid, ls in cs.items():
            ctx.evaluations += 1; ctx.traces += 1
            a = allr[cid]; f = rf[cid]; mm = mf[cid]
            ctx.count("year_filter_outcome", outcome(f)[0] if outcome(f)[0] != "err" else outcome(f)[1])
            # K: model in year-filter mode vs code
            # accept/reject is compared only where the all-years run succeeds (a matching failure is C05's observable)
            w = ("legs", "cost", "proceeds", "totals", "years", "holdings") + (("accept", "error") if a.get("ok") else ())
            kd, cr = case_diffs(ls, mm, f, w)
            def k_report():
                ctx.disagreements_checked += 1
                ctx.violation("correspondence K.C07.filter broken (year %d): %s" % (y, kd[0][1:]), {"input_dsl": ledger.render(ls), "year": y, "model": mm, "code": f,
                              "correspondence": "K.C07.filter"}, found_input=False)
            if not a.get("ok"):
                if kd: k_report()
                continue
            nv = len(ctx.violations) + getattr(ctx, "suppressed", 0)
            ca = compare.canon_rust(a["report"])
            if not f.get("ok"):
                c = compare.classify_error(f.get("error", ""))
                if c[0] == "NoExemption" and y not in ex: continue          # a year outside the exemption table is an error, never zero
                if c[0] == "TaxYear" and not (1900 <= y <= 2100): continue
                ctx.violation("year filter %d fails although the all-years report succeeds: %s" % (y, f.get("error", "")[:160]),
                              {"input_dsl": ledger.render(ls), "year": y, "code": f}, found_input=True); continue
            cf = compare.canon_rust(f["report"])
            sl = [yy for yy in ca["years"] if yy["year"] == y]
            if len(cf["years"]) != 1 or cf["years"][0]["year"] != y:
                ctx.violation("year filter %d returns years %s" % (y, [yy["year"] for yy in cf["years"]]), {"input_dsl": ledger.render(ls), "year": y, "code": f}, found_input=True); continue
            if sl:
                d = compare.compare_reports({"years": sl, "holdings": ca["holdings"]}, cf)
                d = [x for x in d]
                if sl and cf["years"][0]["disposals"]: ctx.nontrivial.add((K.signature(ls), y))
            else:
                yy = cf["years"][0]
                d = [("years", "year without disposals in the all-years report has disposals under the filter", len(yy["disposals"]))] if yy["disposals"] else []
                d += compare.compare_reports({"years": [], "holdings": ca["holdings"]}, {"years": [], "holdings": cf["holdings"]})
                if yy["gain"] != 0 or yy["loss"] != 0: d.append(("totals", "empty year has totals", float(yy["gain"])))
            if d:
                ctx.disagreements_checked += 1
                ctx.violation("report for year %d is not the slice of the all-years report: %s" % (y, d[0]), {"input_dsl": ledger.render(ls), "year": y, "code_all": a, "code_year": f}, found_input=True)
            elif kd and nv == len(ctx.violations) + getattr(ctx, "suppressed", 0):
                k_report()
        ctx.sample({"year_filter": y, "cases": len(cs)})
    # years ascending and each disposal in the year of its date (all-years mode)
    for cid, ls in cases.items():
        a = allr[cid]
        if not a.get("ok"): continue
        ys = [yy["year"] for yy in a["report"]["years"]]
        if ys != sorted(set(ys)):
            ctx.violation("tax years not strictly ascending: %s" % ys, {"input_dsl": ledger.render(ls), "code": a}, found_input=True)
        for yy in a["report"]["years"]:
            for d in yy["disposals"]:
                if K.tax_year(datetime.date.fromordinal(d["date"])) != yy["year"]:
                    ctx.violation("disposal dated %s listed under %d" % (datetime.date.fromordinal(d["date"]), yy["year"]), {"input_dsl": ledger.render(ls), "code": a}, found_input=True)
    # K on all-years mode for a sample
    for cid in m_all:
        kd, cr = case_diffs(cases[cid], m_all[cid], allr[cid], ("years", "totals"))
        if kd:
            ctx.violation("correspondence K.C07.years broken: %s" % (kd[0][1:],), {"input_dsl": ledger.render(cases[cid]), "model": m_all[cid], "code": allr[cid], "correspondence": "K.C07.years"}, found_input=False)

# ---------- C09 ----------
def rand_case(rng, s):
    return "".join(c.lower() if rng.random() < 0.5 else c.upper() for c in s)

def k_c09(ctx):
    V = Variants(ctx, "C09"); rng = ctx.rng
    groups = {}
    srcs = [(k, v) for k, v in K.corpus_ledgers().items() if len(K.ticks_of(v)) > 1]
    for i in range(ctx.n(1500, 20000)):
        ls = gen.gen_ledger(rng, nsec=rng.choice([2, 2, 3]), nlines=rng.randint(6, 16), shuffle=0.5)
        # interleave on the same dates: copy some dates across securities
        if rng.random() < 0.6 and len(ls) > 3:
            ds = [l.date for l in ls]
            ls = [l.copy(date=rng.choice(ds)) if rng.random() < 0.3 else l for l in ls]
        srcs.append(("g%d" % i, ls))
    for gid, base in srcs:
        vs = {"only:" + t: [l for l in base if l.tick.upper() == t] for t in K.ticks_of(base)}
        groups[gid] = {"base": base, "vars": vs}
    def judge(gid, base, vs, g):
        fails = []
        if not base.get("ok"):
            # the whole fails iff some projection fails (with the same first error on that security)
            oks = [v.get("ok") for v in vs.values()]
            if all(oks): fails.append(("outcome", "every security alone is accepted but the whole is refused: %s" % base.get("error", "")[:160], None))
            return fails
        a = compare.canon_rust(base["report"])
        sums = defaultdict(lambda: defaultdict(lambda: F(0)))
        shape_class = classes.kf_nonadjacent_same_day_sells(g["base"])
        for n, rr in vs.items():
            t = n[5:]
            if not rr.get("ok"):
                fails.append(("outcome", "security %s alone is refused (%s) but accepted in the whole" % (t, rr.get("error", "")[:120]), None)); continue
            b = compare.canon_rust(rr["report"])
            proj = {"years": [], "holdings": [h for h in a["holdings"] if h["tick"] == t]}
            for y in a["years"]:
                ds = [d for d in y["disposals"] if d["tick"] == t]
                if ds: proj["years"].append(dict(y, disposals=ds))
            d = rep_diffs(proj, b, strict_shape=True, what=("legs", "cost", "gain", "proceeds", "holdings", "years"))
            if d:
                dm = rep_diffs(proj, b, strict_shape=False, what=("legs", "cost", "proceeds", "holdings", "years"))
                known = load_known_text("C09", "kf_nonadjacent_same_day_sells") if (not dm and shape_class) else None
                fails.append((d[0][0], "%s alone vs in the whole: %s" % (t, d[0][1:]), known))
            for y in b["years"]:
                for k in ("gain", "loss", "div_income", "div_tax"): sums[y["year"]][k] += y[k]
                sums[y["year"]]["count"] += y["count"]
        if not fails:
            for y in a["years"]:
                for k in ("gain", "loss", "div_income", "div_tax"):
                    if not compare.near(y[k], sums[y["year"]][k]): fails.append(("totals", "year %d %s %s != sum over securities %s" % (y["year"], k, float(y[k]), float(sums[y["year"]][k])), None))
                if y["count"] != sums[y["year"]]["count"]: fails.append(("totals", "year %d count" % y["year"], None))
        return fails
    V.run(groups, judge)
    # ticker case: DSL and JSON
    from . import run
    cases = []
    for i, (gid, base) in enumerate(srcs[:ctx.n(200, 3000)]):
        up = ledger.render(base)
        mixed = ledger.render([l.copy(tick=rand_case(rng, l.tick)) for l in base])
        cases.append({"id": "%s#up" % gid, "op": "report", "dsl": up}); cases.append({"id": "%s#mx" % gid, "op": "report", "dsl": mixed})
    rr = run.run_harness(cases)
    for c in cases[::2]:
        gid = c["id"][:-3]; x = rr[gid + "#up"]; y = rr[gid + "#mx"]; ctx.evaluations += 2
        if outcome(x) != outcome(y) or (x.get("ok") and rep_diffs(compare.canon_rust(x["report"]), compare.canon_rust(y["report"]))):
            ctx.violation("ticker letter case changes the report", {"upper": c["dsl"], "mixed": [k for k in cases if k["id"] == gid + "#mx"][0]["dsl"], "code_upper": x, "code_mixed": y}, found_input=True)

# ---------- C10 ----------
def rescale_twin(lines, sp):
    """ledger in post-split units: remove split line sp, multiply quantities of its security dated <= its date by r, divide unit prices.
    None when a rescaled quantity or price is not an exact decimal (the twin could not be written down without truncation)."""
    r = K.ratio_of(sp); t = sp.tick.upper(); out = []
    for l in lines:
        if l is sp: continue
        if l.tick.upper() == t and l.date <= sp.date:
            if l.kind in ("BUY", "SELL"):
                if not (classes._repr28(F(l.a) * r) and classes._repr28(F(l.v) / r)): return None
                out.append(l.copy(a=gen.dec_str(F(l.a) * r), v=gen.dec_str(F(l.v) / r)))
            elif l.kind in ("CAPRETURN", "ACCUMULATION"):
                if not classes._repr28(F(l.a) * r): return None
                out.append(l.copy(a=gen.dec_str(F(l.a) * r)))
            else: out.append(l)
        else: out.append(l)
    return out

def k_c10(ctx):
    V = Variants(ctx, "C10"); rng = ctx.rng
    groups = {}
    srcs = [(k, v) for k, v in K.corpus_ledgers().items() if classes.has_splits(v)]
    for i in range(ctx.n(1500, 25000)):
        ls = gen.gen_awkward_exact(rng) if rng.random() < 0.1 else gen.gen_ledger(rng, splits=0.22, events=rng.choice([0, 0, 0.1]), frac_ratio=0.25)
        if not classes.has_splits(ls):
            t = ls[0].tick; d = rng.choice(ls).date
            ls = ls + [Line(d, t, rng.choice(["SPLIT", "UNSPLIT"]), rng.choice(gen.RATIOS))]
        srcs.append(("g%d" % i, ls))
    for gid, base in srcs:
        sps = [l for l in base if l.kind in ("SPLIT", "UNSPLIT") and F(l.a) > 0]
        # the rescaling law for the LAST split of a security on its date (others on that date keep their effect)
        vs = {}
        for j, sp in enumerate(sps[:3]):
            # rescaling is exact only if the ratio is a terminating decimal
            tw = rescale_twin(base, sp)
            if tw is not None: vs["rescale%d" % j] = tw
            else: ctx.count("rescale_twin_skipped(not an exact decimal)", True)
        # SPLIT r immediately followed by UNSPLIT r changes nothing
        t = rng.choice(K.ticks_of(base)); d = rng.choice(base).date; r = rng.choice(gen.RATIOS + gen.FRAC_RATIOS + gen.AWKWARD_RATIOS)
        ins = [Line(d, t, "SPLIT", r), Line(d, t, "UNSPLIT", r)]
        pos = rng.randint(0, len(base)); vs["cancel"] = base[:pos] + ins + base[pos:]
        groups[gid] = {"base": base, "vars": vs, "sps": sps}
    def judge(gid, base, vs, g):
        fails = []
        ob = outcome(base)
        for n, rr in vs.items():
            ov = outcome(rr)
            d5 = classes.kf_event_after_split(g["base"]) or classes.kf_event_after_split(g["vars"][n])
            resid = classes.kf_inexact_ratio_chain(g["base"]) or classes.kf_inexact_ratio_chain(g["vars"][n])
            if ob[0] != ov[0]:
                known = load_known_text("C10", "kf_event_after_split") if d5 else (load_known_text("C10", "kf_inexact_ratio_chain") if resid else None)
                fails.append(("outcome", "%s: base %s vs variant %s" % (n, ob, ov), known)); continue
            if ob[0] != "ok": continue
            a = compare.canon_rust(base["report"]); b = compare.canon_rust(rr["report"])
            shape = classes.kf_nonadjacent_same_day_sells(g["base"]) or classes.kf_nonadjacent_same_day_sells(g["vars"][n])
            d = money_diffs(a, b, shape)
            # every share count exact in both ledgers (and the twin's quantities written without truncation): the counts must agree exactly
            tolq = F(0) if not resid else TOLQ
            # quantities: same legs structure; quantities dated <= split date scaled by r
            if n.startswith("rescale") and not d:
                sp = g["sps"][int(n[7:])]; r = K.ratio_of(sp); t = sp.tick.upper(); z = sp.date.toordinal()
                for ya, yb in zip(a["years"], b["years"]):
                    for da, db in zip(ya["disposals"], yb["disposals"]):
                        k = r if (da["tick"] == t and da["date"] <= z) else 1
                        if [(l["rule"], l["acq"]) for l in da["legs"]] != [(l["rule"], l["acq"]) for l in db["legs"]]:
                            d.append(("legs", (da["date"], da["tick"]), "shape")); continue
                        for la, lb in zip(da["legs"], db["legs"]):
                            if abs(la["qty"] * k - lb["qty"]) > tolq * max(1, abs(lb["qty"])): d.append(("legs", (da["date"], da["tick"], la["rule"], str(la["qty"] * k)), str(lb["qty"])))
                ha = {h["tick"]: h for h in a["holdings"]}; hb = {h["tick"]: h for h in b["holdings"]}
                if set(ha) != set(hb): d.append(("holdings", sorted(ha), sorted(hb)))
                else:
                    for tk in ha:
                        if abs(ha[tk]["qty"] - hb[tk]["qty"]) > tolq * max(1, abs(ha[tk]["qty"])): d.append(("holdings", (tk, "qty", str(ha[tk]["qty"])), str(hb[tk]["qty"])))
                        if not compare.near(ha[tk]["cost"], hb[tk]["cost"]): d.append(("holdings", (tk, "cost", float(ha[tk]["cost"])), float(hb[tk]["cost"])))
            elif n == "cancel" and not d:
                d = compare.compare_reports(a, b, what=("legs", "cost", "proceeds", "holdings", "totals", "years"), exact_qty=not resid)
            if d:
                known = load_known_text("C10", "kf_event_after_split") if d5 else None
                fails.append((d[0][0], "%s: %s" % (n, d[0][1:]), known))
        return fails
    V.run(groups, judge)

# ---------- C11 ----------
def k_c11(ctx):
    V = Variants(ctx, "C11"); rng = ctx.rng
    groups = {}
    srcs = [(k, v) for k, v in K.corpus_ledgers().items() if classes.has_events(v) or any(l.kind == "DIVIDEND" for l in v)]
    for i in range(ctx.n(1500, 25000)):
        ls = gen.gen_ledger(rng, events=0.25, splits=rng.choice([0, 0, 0.08]), dividends=0.1)
        srcs.append(("g%d" % i, ls))
    for gid, base in srcs:
        vs = {}
        evs = [l for l in base if l.kind in ("CAPRETURN", "ACCUMULATION")]
        for j, e in enumerate(evs[:3]):
            vs["without%d" % j] = [l for l in base if l is not e]
        divs = [l for l in base if l.kind == "DIVIDEND"]
        if divs: vs["nodividends"] = [l for l in base if l.kind != "DIVIDEND"]
        # an accumulation and a capital return of equal net amount on one date cancel
        t = rng.choice(K.ticks_of(base)); d = rng.choice(base).date; amt = rng.choice(["1", "5", "0.5"])
        ins = [Line(d, t, "ACCUMULATION", "1", amt, "GBP", None), Line(d, t, "CAPRETURN", "1", amt, "GBP", None)]
        vs["cancel"] = base + ins
        groups[gid] = {"base": base, "vars": vs, "evs": evs}
    def totals(cr, t):
        used = sum(l["cost"] for y in cr["years"] for d in y["disposals"] if d["tick"] == t for l in d["legs_raw"])
        left = sum(h["cost"] for h in cr["holdings"] if h["tick"] == t)
        return used + left
    def judge(gid, base, vs, g):
        fails = []
        ob = outcome(base)
        lines = g["base"]
        d5 = classes.kf_event_after_split(lines)
        if ob[0] == "err" and ob[1] == "CapExceeds" and "S122" not in base.get("error", ""):
            fails.append(("refusal_text", "CAPRETURN refusal does not cite TCGA92 s122: %s" % base.get("error", "")[:120], None))
        if ob[0] == "ok":
            a = compare.canon_rust(base["report"])
            neg = [(d["tick"], d["date"], float(l["cost"])) for y in a["years"] for d in y["disposals"] for l in d["legs_raw"] if l["cost"] < -TOLM]
            negh = [(h["tick"], float(h["cost"])) for h in a["holdings"] if h["cost"] < -TOLM]
            if neg or negh:
                known = load_known_text("C11", "kf_lot_cost_below_share")
                fails.append(("negative_cost", "negative allowable cost reported: %s %s" % (neg[:2], negh[:2]), known))
        for n, rr in vs.items():
            ov = outcome(rr)
            if n.startswith("without"):
                if ob[0] != "ok" or ov[0] != "ok": continue
                e = g["evs"][int(n[7:])]; t = e.tick.upper()
                a = compare.canon_rust(base["report"]); b = compare.canon_rust(rr["report"])
                delta = totals(a, t) - totals(b, t)
                net = F(e.v) if e.kind == "ACCUMULATION" else -(F(e.v) - F(e.x or 0))
                eff = 1   # did it take effect?  a purchase strictly earlier and shares held at the start of the day
                days = K.per_day(lines, t); z = e.date.toordinal()
                bought_before = any(x["hasbuy"] and zz < z for zz, x in days.items())
                held = sum((x["b"] - x["s"]) * K.rho(days, zz, z) for zz, x in days.items() if zz < z)
                exp = net if (bought_before and held > 0) else F(0)
                if not compare.near(delta, exp):
                    fails.append(("exact_amount", "%s %s on %s moved cost by %s, expected %s" % (e.kind, t, e.date, float(delta), float(exp)),
                                  load_known_text("C11", "kf_event_after_split") if d5 else None))
                # never spread over later acquisitions: other securities untouched
                for t2 in K.ticks_of(lines):
                    if t2 != t and not compare.near(totals(a, t2), totals(b, t2)): fails.append(("cross_security", "%s changed by an event of %s" % (t2, t), None))
            elif n == "nodividends":
                if ob[0] != ov[0]: fails.append(("dividends_inert", "removing DIVIDEND lines changes the outcome %s -> %s" % (ob, ov), None)); continue
                if ob[0] != "ok": continue
                a = compare.canon_rust(base["report"]); b = compare.canon_rust(rr["report"])
                # years with only dividends? all-years mode lists only years with disposals, so the year lists agree
                d = rep_diffs(a, b, strict_shape=True, what=("legs", "cost", "gain", "proceeds", "holdings", "years"))
                for ya, yb in zip(a["years"], b["years"]):
                    for k in ("gain", "loss", "net", "exempt", "taxable"):
                        if not compare.near(ya[k], yb[k]): d.append(("totals", ya["year"], k))
                if d: fails.append(("dividends_inert", "removing DIVIDEND lines changes %s" % (d[0],), None))
            elif n == "cancel":
                if ob[0] != "ok" or ov[0] != "ok": continue     # "when both are accepted"
                a = compare.canon_rust(base["report"]); b = compare.canon_rust(rr["report"])
                shape = classes.kf_nonadjacent_same_day_sells(g["base"]) or classes.kf_nonadjacent_same_day_sells(g["vars"][n])
                d = rep_diffs(a, b, strict_shape=False, what=("legs", "cost", "proceeds", "holdings", "totals", "years")) or money_diffs(a, b, shape)
                if d: fails.append(("cancel", "equal ACCUMULATION and CAPRETURN on one date do not cancel: %s" % (d[0],),
                                    load_known_text("C11", "kf_event_after_split") if (d5 or classes.kf_event_after_split(g["vars"][n])) else None))
        return fails
    V.run(groups, judge)
    # K: model vs code on costs for event-heavy ledgers
    cases = {gid: g for gid, g in srcs[:ctx.n(400, 6000)]}
    run_k(ctx, cases, ("cost", "holdings", "years", "accept", "error"))

# ---------- C12 ----------
def k_c12(ctx):
    V = Variants(ctx, "C12"); rng = ctx.rng
    groups = {}
    for i in range(ctx.n(1500, 20000)):
        p = gen.gen_ledger(rng, events=rng.choice([0, 0.1]), max_year=2023)
        last = max(l.date for l in p)
        vs = {}
        for j in range(2):
            s = gen.gen_ledger(rng, events=0, uncovered=0.15, dividends=0.15, max_year=2025)
            gap = rng.choice([31, 31, 32, 40, 100, 400])
            s0 = min(l.date for l in s); shift = (last - s0).days + gap
            s = [l.copy(date=min(l.date + datetime.timedelta(days=shift), datetime.date(2026, 4, 5))) for l in s]
            # reuse the prefix's tickers so that the continuation trades the same securities
            tk = K.ticks_of(p); s = [l.copy(tick=tk[hash(l.tick) % len(tk)]) for l in s]
            if min(l.date for l in s) <= last + datetime.timedelta(days=30): continue
            vs["ext%d" % j] = p + s
        # a continuation that starts exactly on a tax-year boundary date: a sale of half of what is held (or a purchase)
        first_ok = last + datetime.timedelta(days=31)
        for (mm, dd) in rng.sample([(4, 5), (4, 6), (4, 6), (4, 7), (12, 31), (1, 1)], 2):
            y = first_ok.year
            while datetime.date(y, mm, dd) < first_ok: y += 1
            if y > 2025: continue
            d0 = datetime.date(y, mm, dd); tk = K.ticks_of(p); t = rng.choice(tk)
            days = K.per_day(p, t)
            held = sum((x["b"] - x["s"]) * K.rho(days, zz, 10**9) for zz, x in days.items())
            cont = [Line(d0, t, "SELL", gen.dec_str(held / 2), rng.choice(gen.PRICE), "GBP", rng.choice(gen.FEES))] if (held > 0 and classes._repr28(held / 2)) else \
                   [Line(d0, t, "BUY", "10", rng.choice(gen.PRICE), "GBP", None)]
            if rng.random() < 0.5: cont.append(Line(d0 + datetime.timedelta(days=rng.choice([1, 40])), t, "BUY", "5", rng.choice(gen.PRICE), "GBP", None))
            vs["anchor%02d%02d" % (mm, dd)] = p + cont
        groups["g%d" % i] = {"base": p, "vars": vs, "last": last}
    # long histories kept in an export's own order (grouped by security, not by date), with days on which one security is sold in
    # several rows between which rows of other securities fall once the dates are sorted
    for i in range(ctx.n(120, 1500)):
        ticks = rng.sample(gen.TICKS, 3); d0 = gen.start_date(rng, 2016, 2020); rows = {t: [] for t in ticks}
        for t in ticks: rows[t].append(Line(d0, t, "BUY", "10000", rng.choice(gen.PRICE), "GBP", None))
        nd = rng.randint(8, 16); day = d0
        for j in range(nd):
            day = day + datetime.timedelta(days=rng.choice([3, 10, 29, 31, 45]))
            for t in ticks:
                for k in range(rng.choice([0, 1, 2, 2, 3])):
                    rows[t].append(Line(day, t, "SELL", rng.choice(["1", "7", "10", "20"]), rng.choice(gen.PRICE), "GBP", rng.choice(gen.FEES)))
                if rng.random() < 0.3: rows[t].append(Line(day, t, "BUY", rng.choice(["5", "17"]), rng.choice(gen.PRICE), "GBP", None))
        p = [l for t in ticks for l in rows[t]]
        if rng.random() < 0.5: rng.shuffle(p)
        last = max(l.date for l in p); vs = {}
        for j, extra in enumerate((1, 4, 9)):
            cont = [Line(last + datetime.timedelta(days=31 + 5 * q), rng.choice(ticks), rng.choice(["BUY", "SELL"]), "3", rng.choice(gen.PRICE), "GBP", None) for q in range(extra)]
            vs["long+%d" % extra] = p + cont
        ctx.count("long_history_rows", len(p) // 10 * 10)
        groups["L%d" % i] = {"base": p, "vars": vs, "last": last}
    # the first line the property allows in a continuation: a purchase exactly 31 days after a final sale, with the sale placed
    # where day counting is delicate (December of leap and ordinary years, around 29 February, year ends)
    for i in range(ctx.n(300, 4000)):
        y = rng.choice([2016, 2020, 2024, 2019, 2023, 2017]); t = rng.choice(gen.TICKS)
        D = rng.choice([datetime.date(y, 12, rng.randint(1, 31)), datetime.date(y, 12, rng.randint(1, 31)), datetime.date(y, 1, rng.randint(28, 31)), datetime.date(y, 2, rng.randint(1, 28)), datetime.date(y, rng.randint(3, 11), rng.randint(1, 28))])
        q = rng.choice([100, 40, 250]); sq = rng.choice([q, q // 2, 10])
        p = [Line(D - datetime.timedelta(days=rng.choice([40, 100, 400])), t, "BUY", str(q), rng.choice(gen.PRICE), "GBP", rng.choice(gen.FEES)),
             Line(D, t, "SELL", str(sq), rng.choice(gen.PRICE), "GBP", rng.choice(gen.FEES))]
        if rng.random() < 0.3: p.insert(1, Line(D - datetime.timedelta(days=rng.choice([1, 10, 29])), t, "SELL", "5", rng.choice(gen.PRICE), "GBP", None))
        vs = {}
        for gap in (31, 32):
            vs["buy+%d" % gap] = p + [Line(D + datetime.timedelta(days=gap), t, "BUY", str(rng.choice([sq, 2 * sq, 5])), rng.choice(gen.PRICE), "GBP", None)]
        groups["w%d" % i] = {"base": p, "vars": vs, "last": D}
    def judge(gid, base, vs, g):
        fails = []
        ob = outcome(base); last = g["last"].toordinal()
        for n, rr in vs.items():
            ov = outcome(rr)
            s_first = min(l.date for l in g["vars"][n][len(g["base"]):])
            if ob[0] == "ok" and ov[0] != "ok":
                # the failure must be located in the continuation
                c = compare.classify_error(rr.get("error", ""))
                loc_ok = (c[0] in ("ExceedsHolding", "NoPrior", "Unmatched", "ResvExceeds", "CapExceeds", "Refusal") and c[2] and datetime.date.fromisoformat(c[2]) >= s_first) or \
                         (c[0] == "NoExemption" and c[3] is not None and c[3] >= K.tax_year(s_first)) or c[0] in ("MissingFx",)
                if not loc_ok: fails.append(("rejected_for_earlier_period", "%s: accepted prefix, extension refused with: %s" % (n, rr.get("error", "")[:160]), None))
                continue
            if ob[0] != "ok":
                if ov[0] == "ok": fails.append(("outcome", "%s: refused prefix accepted after extension" % n, None))
                continue
            a = compare.canon_rust(base["report"]); b = compare.canon_rust(rr["report"])
            # disposals of the prefix
            da = [d for y in a["years"] for d in y["disposals"]]
            db = [d for y in b["years"] for d in y["disposals"] if d["date"] <= last]
            A = {"years": [{"year": 0, "disposals": da, "gain": 0, "loss": 0, "net": 0, "exempt": 0, "taxable": 0, "count": 0, "div_income": 0, "div_tax": 0}], "holdings": []}
            B = {"years": [{"year": 0, "disposals": db, "gain": 0, "loss": 0, "net": 0, "exempt": 0, "taxable": 0, "count": 0, "div_income": 0, "div_tax": 0}], "holdings": []}
            d = rep_diffs(A, B, strict_shape=True, what=("legs", "cost", "gain", "proceeds", "years"))
            if not d:
                cut = K.tax_year(s_first)
                ya = [y for y in a["years"] if y["year"] < cut]; yb = [y for y in b["years"] if y["year"] < cut]
                d = compare.compare_reports({"years": ya, "holdings": []}, {"years": yb, "holdings": []}, what=("totals", "years"))
            if d: fails.append((d[0][0], "%s: %s" % (n, d[0][1:]), None))
        return fails
    V.run(groups, judge)
    # the 30-day bound is tight: a purchase exactly 30 days after the last disposal may change it (not a violation; recorded)
    ctx.notes.append("continuations start 31+ days after the prefix's last date; gaps drawn from {31,31,32,40,100,400}")
