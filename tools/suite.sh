#!/bin/bash
# Run the repository's baseline suite (guard off) and print a compact summary.
cd /repo || exit 2
export RUST_BACKTRACE=0 CARGO_NET_OFFLINE=true
out=$(cargo test --workspace --no-fail-fast --offline 2>&1)
echo "$out" | grep -E "^test result" | awk '{p+=$4; f+=$6} END {print "passed="p" failed="f}'
echo "$out" | grep -E "^test .* FAILED|^error|panicked" | head -20
