#!/bin/bash
# usage: confirm_seed.sh <PID> <worktree> [dir-name, default PID]  -- confirm a seeded change myself: suite green with it, demo red with it, green without
pid="$1"; wt="$2"; export RUST_BACKTRACE=0 CARGO_NET_OFFLINE=true
name="${3:-$1}"; out=/verif/seeded/$name; mkdir -p $out
cp $wt/OUT/patch.diff $out/patch.diff; rm -rf $out/demo; cp -r $wt/OUT/demo $out/demo; cp $wt/OUT/meta.json $out/agent_meta.json
cd $wt || exit 2
git diff > /tmp/confirm_$pid.diff; if ! diff -q /tmp/confirm_$pid.diff $out/patch.diff >/dev/null; then echo "worktree diff != patch.diff"; fi
suite=$(cargo test --workspace --no-fail-fast --offline 2>&1 | grep -E "^test result" | awk '{p+=$4; f+=$6} END {print "passed="p" failed="f}')
bash $out/demo/demo.sh $wt > /tmp/confirm_${pid}_mod.log 2>&1; rc_mod=$?
bash $out/demo/demo.sh "${CLEAN:-/repo}" > /tmp/confirm_${pid}_orig.log 2>&1; rc_orig=$?
echo "$pid suite_with_change: $suite ; demo_with_change_exit=$rc_mod ; demo_without_exit=$rc_orig"
python3 - "$pid" "$suite" "$rc_mod" "$rc_orig" "$name" <<'PY'
import json, sys
pid, suite, rc_mod, rc_orig, name = sys.argv[1:6]
am = json.load(open('/verif/seeded/%s/agent_meta.json' % name))
meta = {"property": pid, "breaks": am.get("summary"), "needs_to_manifest": am.get("needs_to_manifest"),
        "confirmed_by_me": {"suite_with_change": suite, "demo_exit_with_change": int(rc_mod), "demo_exit_without_change": int(rc_orig),
                            "commands": ["cd <worktree with patch> && cargo test --workspace --no-fail-fast --offline", "bash demo/demo.sh <worktree with patch>", "bash demo/demo.sh /repo"]},
        "agent_ran": am.get("ran"), "caught_by": []}
json.dump(meta, open('/verif/seeded/%s/meta.json' % name, 'w'), indent=1)
PY
