//! Correspondence harness: reads one JSON case per line on stdin, calls the real
//! cgt-tool library API from /repo's current working tree, prints one JSON result
//! per line. Every call is wrapped in catch_unwind: a panic is an outcome.
use cgt_core::calculator::calculate;
use cgt_core::parser::parse_file;
use cgt_core::{Config, Disposal, Match, MatchRule, TaxReport, TaxYearSummary, Transaction};
use chrono::{Datelike, NaiveDate};
use rust_decimal::Decimal;
use serde_json::{Value, json};
use std::io::{BufRead, Write};
use std::panic::{AssertUnwindSafe, catch_unwind};
use std::str::FromStr;

fn dnum(d: NaiveDate) -> i64 {
    d.num_days_from_ce() as i64
}
fn ds(d: Decimal) -> Value {
    Value::String(d.to_string())
}
fn rule_s(r: &MatchRule) -> &'static str {
    match r {
        MatchRule::SameDay => "SameDay",
        MatchRule::BedAndBreakfast => "BedAndBreakfast",
        MatchRule::Section104 => "Section104",
    }
}
fn jmatch(m: &Match) -> Value {
    json!({"rule": rule_s(&m.rule), "qty": ds(m.quantity), "cost": ds(m.allowable_cost),
           "gain": ds(m.gain_or_loss), "acq": m.acquisition_date.map(dnum)})
}
fn jdisp(d: &Disposal) -> Value {
    json!({"date": dnum(d.date), "tick": d.ticker, "qty": ds(d.quantity), "gross": ds(d.gross_proceeds),
           "net": ds(d.proceeds), "legs": d.matches.iter().map(jmatch).collect::<Vec<_>>(),
           "m_gain": ds(d.net_gain_or_loss()), "m_cost": ds(d.total_allowable_cost())})
}
fn jyear(y: &TaxYearSummary) -> Value {
    json!({"year": y.period.start_year(), "gain": ds(y.total_gain), "loss": ds(y.total_loss), "net": ds(y.net_gain),
           "exempt": ds(y.exempt_amount), "taxable": ds(y.taxable_gain(y.exempt_amount)),
           "count": y.disposal_count(), "m_gross": ds(y.gross_proceeds()),
           "div_income": ds(y.dividend_income), "div_tax": ds(y.dividend_tax_paid),
           "disposals": y.disposals.iter().map(jdisp).collect::<Vec<_>>()})
}
fn jreport(r: &TaxReport) -> Value {
    json!({"years": r.tax_years.iter().map(jyear).collect::<Vec<_>>(),
           "holdings": r.holdings.iter().map(|h| json!({"tick": h.ticker, "qty": ds(h.quantity), "cost": ds(h.total_cost)})).collect::<Vec<_>>(),
           "n_transactions": r.transactions.len()})
}

fn config_of(case: &Value) -> Result<Config, String> {
    match case.get("exemptions") {
        Some(Value::Object(m)) => {
            let mut c = Config::default();
            for (k, v) in m {
                let y: u16 = k.parse().map_err(|_| format!("bad exemption year {k}"))?;
                let d = Decimal::from_str(v.as_str().unwrap_or("")).map_err(|e| e.to_string())?;
                c.exemptions.insert(y, d);
            }
            Ok(c)
        }
        _ => Config::embedded().map_err(|e| e.to_string()),
    }
}

fn parse_input(case: &Value) -> Result<Vec<Transaction>, String> {
    if let Some(dsl) = case.get("dsl").and_then(|v| v.as_str()) {
        parse_file(dsl).map_err(|e| e.to_string())
    } else if let Some(js) = case.get("json").and_then(|v| v.as_str()) {
        serde_json::from_str::<Vec<Transaction>>(js).map_err(|e| e.to_string())
    } else {
        Err("no input".into())
    }
}

fn op_report(case: &Value, fx: &cgt_money::FxCache) -> Value {
    let txs = match parse_input(case) {
        Ok(t) => t,
        Err(e) => return json!({"ok": false, "stage": "parse", "error": e}),
    };
    let cfg = match config_of(case) {
        Ok(c) => c,
        Err(e) => return json!({"ok": false, "stage": "config", "error": e}),
    };
    let year = case.get("year").and_then(|v| v.as_i64()).map(|y| y as i32);
    let fxo = match case.get("fx").and_then(|v| v.as_str()) {
        Some("none") => None,
        _ => Some(fx),
    };
    match calculate(&txs, year, fxo, &cfg) {
        Ok(r) => json!({"ok": true, "report": jreport(&r)}),
        Err(e) => json!({"ok": false, "stage": "calculate", "error": e.to_string()}),
    }
}

/// chrono's view of a range of day numbers: civil date and TaxPeriod::from_date.
fn op_dates(case: &Value) -> Value {
    let lo = case["lo"].as_i64().unwrap_or(0);
    let hi = case["hi"].as_i64().unwrap_or(0);
    let mut out = Vec::new();
    for n in lo..=hi {
        match NaiveDate::from_num_days_from_ce_opt(n as i32) {
            Some(d) => {
                let ty = cgt_core::TaxPeriod::from_date(d).ok().map(|p| p.start_year());
                out.push(json!([n, d.year(), d.month(), d.day(), ty]));
            }
            None => out.push(json!([n, null])),
        }
    }
    json!({"ok": true, "dates": out})
}

/// The embedded exemption table, so that both sides are given the code's own data.
fn op_config() -> Value {
    match Config::embedded() {
        Ok(c) => {
            let mut m = serde_json::Map::new();
            for (k, v) in &c.exemptions {
                m.insert(k.to_string(), ds(*v));
            }
            json!({"ok": true, "exemptions": m})
        }
        Err(e) => json!({"ok": false, "stage": "config", "error": e.to_string()}),
    }
}

fn main() {
    std::panic::set_hook(Box::new(|_| {}));
    let fx = cgt_money::load_default_cache().unwrap_or_default();
    let stdin = std::io::stdin();
    let stdout = std::io::stdout();
    let mut out = stdout.lock();
    for line in stdin.lock().lines() {
        let Ok(line) = line else { break };
        if line.trim().is_empty() {
            continue;
        }
        let case: Value = match serde_json::from_str(&line) {
            Ok(v) => v,
            Err(e) => {
                let _ = writeln!(out, "{}", json!({"ok": false, "stage": "harness", "error": e.to_string()}));
                continue;
            }
        };
        let id = case.get("id").cloned().unwrap_or(Value::Null);
        let op = case.get("op").and_then(|v| v.as_str()).unwrap_or("").to_string();
        let res = catch_unwind(AssertUnwindSafe(|| match op.as_str() {
            "report" => op_report(&case, &fx),
            "dates" => op_dates(&case),
            "config" => op_config(),
            _ => json!({"ok": false, "stage": "harness", "error": format!("unknown op {op}")}),
        }));
        let mut v = match res {
            Ok(v) => v,
            Err(p) => {
                let msg = p
                    .downcast_ref::<String>()
                    .cloned()
                    .or_else(|| p.downcast_ref::<&str>().map(|s| s.to_string()))
                    .unwrap_or_else(|| "panic".to_string());
                json!({"ok": false, "stage": "panic", "error": msg})
            }
        };
        v["id"] = id;
        let _ = writeln!(out, "{}", v);
    }
}
