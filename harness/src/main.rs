//! Correspondence harness: reads one JSON case per line on stdin, calls the real
//! cgt-tool library API from /repo's current working tree, prints one JSON result
//! per line. Every call is wrapped in catch_unwind: a panic is an outcome.
use cgt_core::calculator::calculate;
use cgt_core::parser::parse_file;
use cgt_core::{Config, Disposal, Match, MatchRule, TaxReport, TaxYearSummary, Transaction};
use chrono::{Datelike, NaiveDate};
use rust_decimal::Decimal;
use serde_json::{Value, json};
use std::io::{BufRead, Write};
use std::panic::{AssertUnwindSafe, catch_unwind};
use std::str::FromStr;

fn dnum(d: NaiveDate) -> i64 {
    d.num_days_from_ce() as i64
}
fn ds(d: Decimal) -> Value {
    Value::String(d.to_string())
}
fn rule_s(r: &MatchRule) -> &'static str {
    match r {
        MatchRule::SameDay => "SameDay",
        MatchRule::BedAndBreakfast => "BedAndBreakfast",
        MatchRule::Section104 => "Section104",
    }
}
fn jmatch(m: &Match) -> Value {
    json!({"rule": rule_s(&m.rule), "qty": ds(m.quantity), "cost": ds(m.allowable_cost),
           "gain": ds(m.gain_or_loss), "acq": m.acquisition_date.map(dnum)})
}
fn jdisp(d: &Disposal) -> Value {
    json!({"date": dnum(d.date), "tick": d.ticker, "qty": ds(d.quantity), "gross": ds(d.gross_proceeds),
           "net": ds(d.proceeds), "legs": d.matches.iter().map(jmatch).collect::<Vec<_>>(),
           "m_gain": ds(d.net_gain_or_loss()), "m_cost": ds(d.total_allowable_cost())})
}
fn jyear(y: &TaxYearSummary) -> Value {
    json!({"year": y.period.start_year(), "gain": ds(y.total_gain), "loss": ds(y.total_loss), "net": ds(y.net_gain),
           "exempt": ds(y.exempt_amount), "taxable": ds(y.taxable_gain(y.exempt_amount)),
           "count": y.disposal_count(), "m_gross": ds(y.gross_proceeds()),
           "div_income": ds(y.dividend_income), "div_tax": ds(y.dividend_tax_paid),
           "disposals": y.disposals.iter().map(jdisp).collect::<Vec<_>>()})
}
fn jreport(r: &TaxReport) -> Value {
    json!({"years": r.tax_years.iter().map(jyear).collect::<Vec<_>>(),
           "holdings": r.holdings.iter().map(|h| json!({"tick": h.ticker, "qty": ds(h.quantity), "cost": ds(h.total_cost)})).collect::<Vec<_>>(),
           "n_transactions": r.transactions.len()})
}

fn config_of(case: &Value) -> Result<Config, String> {
    match case.get("exemptions") {
        Some(Value::Object(m)) => {
            let mut c = Config::default();
            for (k, v) in m {
                let y: u16 = k.parse().map_err(|_| format!("bad exemption year {k}"))?;
                let d = Decimal::from_str(v.as_str().unwrap_or("")).map_err(|e| e.to_string())?;
                c.exemptions.insert(y, d);
            }
            Ok(c)
        }
        _ => Config::embedded().map_err(|e| e.to_string()),
    }
}

fn parse_input(case: &Value) -> Result<Vec<Transaction>, String> {
    if let Some(dsl) = case.get("dsl").and_then(|v| v.as_str()) {
        parse_file(dsl).map_err(|e| e.to_string())
    } else if let Some(js) = case.get("json").and_then(|v| v.as_str()) {
        serde_json::from_str::<Vec<Transaction>>(js).map_err(|e| e.to_string())
    } else {
        Err("no input".into())
    }
}

fn op_report(case: &Value, fx: &cgt_money::FxCache) -> Value {
    let txs = match parse_input(case) {
        Ok(t) => t,
        Err(e) => return json!({"ok": false, "stage": "parse", "error": e}),
    };
    let cfg = match config_of(case) {
        Ok(c) => c,
        Err(e) => return json!({"ok": false, "stage": "config", "error": e}),
    };
    let year = case.get("year").and_then(|v| v.as_i64()).map(|y| y as i32);
    let fxo = match case.get("fx").and_then(|v| v.as_str()) {
        Some("none") => None,
        _ => Some(fx),
    };
    match calculate(&txs, year, fxo, &cfg) {
        Ok(r) => json!({"ok": true, "report": jreport(&r)}),
        Err(e) => json!({"ok": false, "stage": "calculate", "error": e.to_string()}),
    }
}

/// chrono's view of a range of day numbers: civil date and TaxPeriod::from_date.
fn op_dates(case: &Value) -> Value {
    let lo = case["lo"].as_i64().unwrap_or(0);
    let hi = case["hi"].as_i64().unwrap_or(0);
    let mut out = Vec::new();
    for n in lo..=hi {
        match NaiveDate::from_num_days_from_ce_opt(n as i32) {
            Some(d) => {
                let ty = cgt_core::TaxPeriod::from_date(d).ok().map(|p| p.start_year());
                out.push(json!([n, d.year(), d.month(), d.day(), ty]));
            }
            None => out.push(json!([n, null])),
        }
    }
    json!({"ok": true, "dates": out})
}

fn hex_decode(h: &str) -> Vec<u8> {
    (0..h.len() / 2)
        .filter_map(|i| u8::from_str_radix(&h[2 * i..2 * i + 2], 16).ok())
        .collect()
}
fn hex_encode(b: &[u8]) -> String {
    b.iter().map(|x| format!("{x:02x}")).collect()
}

/// Every three-letter code iso_currency accepts (the table the parser consults).
fn op_currencies() -> Value {
    let mut v = Vec::new();
    let mut info = serde_json::Map::new();
    for a in b'A'..=b'Z' {
        for b in b'A'..=b'Z' {
            for c in b'A'..=b'Z' {
                let code = String::from_utf8_lossy(&[a, b, c]).to_string();
                if let Some(cur) = cgt_money::Currency::from_code(&code) {
                    info.insert(code.clone(), json!({"exponent": cur.exponent(), "symbol": cur.symbol().to_string()}));
                    v.push(code);
                }
            }
        }
    }
    json!({"ok": true, "codes": v, "info": info})
}

fn show_money(m: &cgt_money::CurrencyAmount) -> String {
    format!("{}|{}", m.amount, m.code())
}
/// Canonical one-line rendering of a transaction (the same format coq/Model/Dsl.v show_txn prints).
fn show_txn(t: &Transaction) -> String {
    use cgt_core::Operation as O;
    let h = |kw: &str| format!("{}|{}|{}", t.date.format("%Y-%m-%d"), t.ticker, kw);
    match &t.operation {
        O::Buy { amount, price, fees } => format!("{}|{}|{}|{}", h("BUY"), amount, show_money(price), show_money(fees)),
        O::Sell { amount, price, fees } => format!("{}|{}|{}|{}", h("SELL"), amount, show_money(price), show_money(fees)),
        O::Dividend { total_value, tax_paid } => format!("{}|{}|{}", h("DIVIDEND"), show_money(total_value), show_money(tax_paid)),
        O::Accumulation { amount, total_value, tax_paid } => format!("{}|{}|{}|{}", h("ACCUMULATION"), amount, show_money(total_value), show_money(tax_paid)),
        O::CapReturn { amount, total_value, fees } => format!("{}|{}|{}|{}", h("CAPRETURN"), amount, show_money(total_value), show_money(fees)),
        O::Split { ratio } => format!("{}|{}", h("SPLIT"), ratio),
        O::Unsplit { ratio } => format!("{}|{}", h("UNSPLIT"), ratio),
    }
}

fn op_parse(case: &Value) -> Value {
    let bytes = hex_decode(case["text_hex"].as_str().unwrap_or(""));
    let Ok(text) = String::from_utf8(bytes) else {
        return json!({"ok": false, "stage": "utf8", "error": "input is not UTF-8"});
    };
    match parse_file(&text) {
        Ok(ts) => json!({"ok": true, "txns": ts.iter().map(show_txn).collect::<Vec<_>>(),
                         "json_pretty": serde_json::to_string_pretty(&ts).ok()}),
        Err(e) => json!({"ok": false, "stage": "parse", "error": e.to_string()}),
    }
}

/// Build transactions at the API level from a plain spec (no serde validation, no upper-casing).
fn build_txns(spec: &Value) -> Result<Vec<Transaction>, String> {
    use cgt_core::Operation as O;
    let mut out = Vec::new();
    for t in spec.as_array().ok_or("spec not an array")? {
        let g = |k: &str| t.get(k).and_then(|v| v.as_str()).unwrap_or("").to_string();
        let dec = |k: &str| Decimal::from_str(&g(k)).map_err(|e| format!("{k}: {e}"));
        let money = |k: &str, c: &str| -> Result<cgt_money::CurrencyAmount, String> {
            let cur = cgt_money::Currency::from_code(&g(c)).ok_or(format!("currency {}", g(c)))?;
            Ok(cgt_money::CurrencyAmount::new(dec(k)?, cur))
        };
        let date = NaiveDate::parse_from_str(&g("date"), "%Y-%m-%d").map_err(|e| e.to_string())?;
        let op = match g("kind").as_str() {
            "BUY" => O::Buy { amount: dec("a")?, price: money("v", "vcur")?, fees: money("x", "xcur")? },
            "SELL" => O::Sell { amount: dec("a")?, price: money("v", "vcur")?, fees: money("x", "xcur")? },
            "DIVIDEND" => O::Dividend { total_value: money("v", "vcur")?, tax_paid: money("x", "xcur")? },
            "ACCUMULATION" => O::Accumulation { amount: dec("a")?, total_value: money("v", "vcur")?, tax_paid: money("x", "xcur")? },
            "CAPRETURN" => O::CapReturn { amount: dec("a")?, total_value: money("v", "vcur")?, fees: money("x", "xcur")? },
            "SPLIT" => O::Split { ratio: dec("a")? },
            "UNSPLIT" => O::Unsplit { ratio: dec("a")? },
            k => return Err(format!("kind {k}")),
        };
        out.push(Transaction { date, ticker: g("tick"), operation: op });
    }
    Ok(out)
}

fn report_sig(ts: &[Transaction], fx: &cgt_money::FxCache) -> Value {
    match Config::embedded().map_err(|e| e.to_string()).and_then(|c| calculate(ts, None, Some(fx), &c).map_err(|e| e.to_string())) {
        Ok(r) => json!({"ok": true, "report": jreport(&r)}),
        Err(e) => json!({"ok": false, "error": e}),
    }
}

/// API-level transactions -> DSL text -> parse; -> JSON -> parse; writing twice; reports of all three.
fn op_roundtrip(case: &Value, fx: &cgt_money::FxCache) -> Value {
    let ts = match build_txns(&case["txns"]) {
        Ok(t) => t,
        Err(e) => return json!({"ok": false, "stage": "build", "error": e}),
    };
    let dsl = cgt_core::dsl::transactions_to_dsl(&ts);
    let back = parse_file(&dsl);
    let (dsl_back, dsl2) = match &back {
        Ok(b) => (json!({"ok": true, "txns": b.iter().map(show_txn).collect::<Vec<_>>()}), Some(cgt_core::dsl::transactions_to_dsl(b))),
        Err(e) => (json!({"ok": false, "error": e.to_string()}), None),
    };
    let js = serde_json::to_string(&ts);
    let json_back = match &js {
        Ok(j) => match serde_json::from_str::<Vec<Transaction>>(j) {
            Ok(b) => json!({"ok": true, "txns": b.iter().map(show_txn).collect::<Vec<_>>(), "equal": b == ts,
                            "report": if case.get("reports").and_then(|v| v.as_bool()).unwrap_or(false) { report_sig(&b, fx) } else { Value::Null }}),
            Err(e) => json!({"ok": false, "error": e.to_string()}),
        },
        Err(e) => json!({"ok": false, "error": e.to_string()}),
    };
    let want_reports = case.get("reports").and_then(|v| v.as_bool()).unwrap_or(false);
    json!({"ok": true, "orig": ts.iter().map(show_txn).collect::<Vec<_>>(), "dsl_hex": hex_encode(dsl.as_bytes()),
           "json_text": js.as_ref().ok().cloned(),
           "dsl_back": dsl_back, "dsl_twice_equal": dsl2.as_ref().map(|d| d == &dsl), "json_back": json_back,
           "report_orig": if want_reports { report_sig(&ts, fx) } else { Value::Null },
           "report_dsl": if want_reports { back.as_ref().map(|b| report_sig(b, fx)).unwrap_or(Value::Null) } else { Value::Null }})
}

/// serde's reading of a JSON text as a transaction list (the CLI's and the MCP tools' JSON input path).
fn op_json_read(case: &Value) -> Value {
    let text = case["json_text"].as_str().unwrap_or("");
    match serde_json::from_str::<Vec<Transaction>>(text) {
        Ok(ts) => json!({"ok": true, "txns": ts.iter().map(show_txn).collect::<Vec<_>>()}),
        Err(e) => json!({"ok": false, "error": e.to_string()}),
    }
}

/// One computed report rendered by the plain-text formatter and as JSON, beside its full-precision values.
fn op_format(case: &Value, fx: &cgt_money::FxCache) -> Value {
    let txs = match parse_input(case) {
        Ok(t) => t,
        Err(e) => return json!({"ok": false, "stage": "parse", "error": e}),
    };
    let cfg = match config_of(case) {
        Ok(c) => c,
        Err(e) => return json!({"ok": false, "stage": "config", "error": e}),
    };
    let year = case.get("year").and_then(|v| v.as_i64()).map(|y| y as i32);
    match calculate(&txs, year, Some(fx), &cfg) {
        Ok(r) => {
            let plain = cgt_formatter_plain::format(&r);
            let js = serde_json::to_string_pretty(&r).unwrap_or_default();
            json!({"ok": true, "report": jreport(&r), "plain": plain, "json": js,
                   "transactions": r.transactions.iter().map(show_txn).collect::<Vec<_>>()})
        }
        Err(e) => json!({"ok": false, "stage": "calculate", "error": e.to_string()}),
    }
}

/// The Schwab converter on an export (and optional awards file); the timestamp line is masked.
fn op_schwab(case: &Value) -> Value {
    use cgt_converter::BrokerConverter;
    use cgt_converter::schwab::{SchwabConverter, SchwabInput};
    let input = SchwabInput {
        transactions_json: case["transactions_json"].as_str().unwrap_or("").to_string(),
        awards_json: case.get("awards_json").and_then(|v| v.as_str()).map(|s| s.to_string()),
    };
    match SchwabConverter::new().convert(&input) {
        Ok(out) => {
            let content: Vec<&str> = out.cgt_content.split('\n').filter(|l| !l.starts_with("# Converted: ")).collect();
            let parsed = parse_file(&out.cgt_content);
            json!({"ok": true, "content": content.join("\n"), "warnings": out.warnings, "skipped": out.skipped_count,
                   "parses": parsed.is_ok(), "parse_error": parsed.as_ref().err().map(|e| e.to_string()),
                   "txns": parsed.map(|ts| ts.iter().map(show_txn).collect::<Vec<_>>()).unwrap_or_default()})
        }
        Err(e) => {
            let kind = match &e {
                cgt_converter::ConvertError::JsonError(_) => "Json",
                cgt_converter::ConvertError::InvalidDate(_) => "InvalidDate",
                cgt_converter::ConvertError::InvalidAmount(_) => "InvalidAmount",
                cgt_converter::ConvertError::MissingFairMarketValue { .. } => "MissingFmv",
                cgt_converter::ConvertError::InvalidTransaction(_) => "InvalidTransaction",
            };
            json!({"ok": false, "kind": kind, "error": e.to_string()})
        }
    }
}

/// Every bundled rate (currency, year, month, rate) for 2014..2027.
fn op_rates(fx: &cgt_money::FxCache) -> Value {
    let mut out = Vec::new();
    let mut codes = Vec::new();
    for a in b'A'..=b'Z' {
        for b in b'A'..=b'Z' {
            for c in b'A'..=b'Z' {
                let code = String::from_utf8_lossy(&[a, b, c]).to_string();
                if let Some(cur) = cgt_money::Currency::from_code(&code) {
                    codes.push((code, cur));
                }
            }
        }
    }
    for (code, cur) in &codes {
        for y in 2014..=2027 {
            for m in 1..=12u32 {
                if let Some(e) = fx.get(*cur, y, m) {
                    out.push(json!([code, y, m, e.rate_per_gbp.to_string()]));
                }
            }
        }
    }
    json!({"ok": true, "rates": out, "len": fx.len()})
}

/// GBP conversion of a ledger with the bundled cache (transactions_to_gbp), full precision.
fn op_to_gbp(case: &Value, fx: &cgt_money::FxCache) -> Value {
    let txs = match parse_input(case) {
        Ok(t) => t,
        Err(e) => return json!({"ok": false, "stage": "parse", "error": e}),
    };
    match cgt_core::transactions_to_gbp(&txs, Some(fx)) {
        Ok(g) => {
            use cgt_core::Operation as O;
            let ops: Vec<Value> = g.iter().map(|t| match &t.operation {
                O::Buy { amount, price, fees } => json!(["BUY", ds(*amount), ds(*price), ds(*fees)]),
                O::Sell { amount, price, fees } => json!(["SELL", ds(*amount), ds(*price), ds(*fees)]),
                O::Dividend { total_value, tax_paid } => json!(["DIVIDEND", ds(*total_value), ds(*tax_paid)]),
                O::CapReturn { amount, total_value, fees } => json!(["CAPRETURN", ds(*amount), ds(*total_value), ds(*fees)]),
                O::Accumulation { amount, total_value, tax_paid } => json!(["ACCUMULATION", ds(*amount), ds(*total_value), ds(*tax_paid)]),
                O::Split { ratio } => json!(["SPLIT", ds(*ratio)]),
                O::Unsplit { ratio } => json!(["UNSPLIT", ds(*ratio)]),
            }).collect();
            json!({"ok": true, "ops": ops})
        }
        Err(e) => json!({"ok": false, "stage": "to_gbp", "error": e.to_string()}),
    }
}

/// validation::validate on API-level transactions: the 1-based positions that carry an error.
fn op_validate(case: &Value) -> Value {
    let ts = match build_txns(&case["txns"]) {
        Ok(t) => t,
        Err(e) => return json!({"ok": false, "stage": "build", "error": e}),
    };
    let r = cgt_core::validate(&ts);
    let mut lines: Vec<usize> = r.errors.iter().filter_map(|e| e.line).collect();
    lines.sort_unstable();
    lines.dedup();
    json!({"ok": true, "is_valid": r.is_valid(), "error_lines": lines, "warnings": r.warnings.len()})
}

/// Arbitrary bytes through every text entry point of the library: each must return Ok or Err.
fn op_bytes(case: &Value, fx: &cgt_money::FxCache) -> Value {
    let bytes = hex_decode(case["hex"].as_str().unwrap_or(""));
    let text = String::from_utf8_lossy(&bytes).to_string();
    let mut out = serde_json::Map::new();
    let parsed = parse_file(&text);
    out.insert("parse".into(), json!(parsed.is_ok()));
    if let Ok(ts) = &parsed {
        let cfg = Config::embedded().unwrap_or_default();
        out.insert("calculate".into(), json!(calculate(ts, None, Some(fx), &cfg).is_ok()));
        out.insert("validate".into(), json!(cgt_core::validate(ts).is_valid()));
        out.insert("to_dsl".into(), json!(cgt_core::dsl::transactions_to_dsl(ts).len()));
    }
    out.insert("json".into(), json!(serde_json::from_str::<Vec<Transaction>>(&text).is_ok()));
    {
        use cgt_converter::BrokerConverter;
        use cgt_converter::schwab::{SchwabConverter, SchwabInput};
        let r = SchwabConverter::new().convert(&SchwabInput { transactions_json: text.clone(), awards_json: Some(text.clone()) });
        out.insert("schwab".into(), json!(r.is_ok()));
    }
    out.insert("fx_xml".into(), json!(cgt_money::parse_monthly_rates(&text, cgt_money::RateSource::Bundled { period: None }, None).is_ok()));
    json!({"ok": true, "outcomes": out})
}

/// The embedded exemption table, so that both sides are given the code's own data.
fn op_config() -> Value {
    match Config::embedded() {
        Ok(c) => {
            let mut m = serde_json::Map::new();
            for (k, v) in &c.exemptions {
                m.insert(k.to_string(), ds(*v));
            }
            json!({"ok": true, "exemptions": m})
        }
        Err(e) => json!({"ok": false, "stage": "config", "error": e.to_string()}),
    }
}

fn main() {
    std::panic::set_hook(Box::new(|_| {}));
    let fx = cgt_money::load_default_cache().unwrap_or_default();
    let stdin = std::io::stdin();
    let stdout = std::io::stdout();
    let mut out = stdout.lock();
    for line in stdin.lock().lines() {
        let Ok(line) = line else { break };
        if line.trim().is_empty() {
            continue;
        }
        let case: Value = match serde_json::from_str(&line) {
            Ok(v) => v,
            Err(e) => {
                let _ = writeln!(out, "{}", json!({"ok": false, "stage": "harness", "error": e.to_string()}));
                continue;
            }
        };
        let id = case.get("id").cloned().unwrap_or(Value::Null);
        let op = case.get("op").and_then(|v| v.as_str()).unwrap_or("").to_string();
        let res = catch_unwind(AssertUnwindSafe(|| match op.as_str() {
            "report" => op_report(&case, &fx),
            "dates" => op_dates(&case),
            "config" => op_config(),
            "currencies" => op_currencies(),
            "parse" => op_parse(&case),
            "roundtrip" => op_roundtrip(&case, &fx),
            "json_read" => op_json_read(&case),
            "format" => op_format(&case, &fx),
            "schwab" => op_schwab(&case),
            "rates" => op_rates(&fx),
            "validate" => op_validate(&case),
            "bytes" => op_bytes(&case, &fx),
            "to_gbp" => op_to_gbp(&case, &fx),
            _ => json!({"ok": false, "stage": "harness", "error": format!("unknown op {op}")}),
        }));
        let mut v = match res {
            Ok(v) => v,
            Err(p) => {
                let msg = p
                    .downcast_ref::<String>()
                    .cloned()
                    .or_else(|| p.downcast_ref::<&str>().map(|s| s.to_string()))
                    .unwrap_or_else(|| "panic".to_string());
                json!({"ok": false, "stage": "panic", "error": msg})
            }
        };
        v["id"] = id;
        let _ = writeln!(out, "{}", v);
    }
}
